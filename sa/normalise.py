"""Normalisation pass run on the parsed package before any rule: *fresh* private helpers are inlined into their callers.

The rules of this verifier are written against the roles that the functions of today's tree play (the confirmed instances are the
reference, see baseline_names.json).  An "extract method" refactoring moves a fragment of such a function into a new private helper;
behaviour is unchanged but the fragment disappears from the function the rule reads.  This pass undoes exactly that edit: a function
whose qualified name is not in the baseline inventory, that is private, plain (no decorator, generator, closure, recursion), that is
only ever *called* (never passed around), and whose returns can be eliminated structurally, is substituted at each of its call sites
and removed.  Anything outside this envelope is left as written and the rules see the helper as an ordinary callee.

The transformation is semantics-preserving by construction:
  - parameters are bound to fresh locals unless the argument is a caller local / constant that the helper does not rebind;
  - helper locals are renamed apart from the caller's names (or onto the assignment target they are returned into);
  - `return` is eliminated only where it is in tail position of a structured if/else/with nesting (guard clauses become if/else);
  - a call is replaced only where it is the first thing its statement evaluates.
"""
import ast
import copy
import json
import os

HERE = os.path.dirname(os.path.abspath(__file__))


def baseline_names():
    p = os.path.join(HERE, 'baseline_names.json')
    with open(p) as fh:
        return set(json.load(fh)['functions'])


def baseline_nested():
    p = os.path.join(HERE, 'baseline_names.json')
    with open(p) as fh:
        return set(json.load(fh).get('nested', []))


_KNOWN_ATTRS = None


def _known_attributes():
    """attribute names of the pinned inventory"""
    global _KNOWN_ATTRS
    if _KNOWN_ATTRS is None:
        with open(os.path.join(HERE, 'baseline_names.json')) as fh:
            _KNOWN_ATTRS = set(json.load(fh).get('attributes', []))
    return _KNOWN_ATTRS


def is_private(name):
    # leading underscore, or the package's own convention for processor helpers: a trailing underscore (trans_)
    return (name.startswith('_') or (name.endswith('_') and len(name) > 1)) and not (name.startswith('__') and name.endswith('__'))


class Unsupported(Exception):
    pass


# ----------------------------------------------------------------------------------------------- helper inventory

def _shallow(node):
    todo = list(ast.iter_child_nodes(node))
    while todo:
        n = todo.pop()
        yield n
        if isinstance(n, (ast.FunctionDef, ast.AsyncFunctionDef, ast.ClassDef, ast.Lambda)):
            continue
        todo.extend(ast.iter_child_nodes(n))


def _always_returns(stmts):
    for s in stmts:
        if isinstance(s, (ast.Return, ast.Raise)):
            return True
        if isinstance(s, ast.If) and s.orelse and _always_returns(s.body) and _always_returns(s.orelse):
            return True
        if isinstance(s, ast.With) and _always_returns(s.body):
            return True
    return False


def _has_return(stmts):
    return any(isinstance(n, ast.Return) for s in stmts for n in ([s] + list(_shallow(s))))


def _drop_tail_void_returns(stmts):
    """a `return` without a value in tail position (last statement of the function, of a branch / handler / with-body that is itself in tail position) only says
    "fall off the end": it is removed (in place), so that `try: X except E: return` at the end of a helper is an ordinary statement"""
    if not stmts:
        return
    last = stmts[-1]
    if isinstance(last, ast.Return) and (last.value is None or (isinstance(last.value, ast.Constant) and last.value.value is None)):
        if len(stmts) > 1:
            stmts.pop()
            _drop_tail_void_returns(stmts)
        else:
            stmts[-1] = ast.copy_location(ast.Pass(), last)
    elif isinstance(last, ast.If):
        _drop_tail_void_returns(last.body)
        _drop_tail_void_returns(last.orelse)
    elif isinstance(last, ast.Try) and not last.finalbody:
        _drop_tail_void_returns(last.body if not last.orelse else last.orelse)
        for hd in last.handlers:
            _drop_tail_void_returns(hd.body)
    elif isinstance(last, ast.With):
        _drop_tail_void_returns(last.body)


class Helper:
    def __init__(self, qual, module, cls, node):
        if not any(isinstance(x, ast.Return) and x.value is not None and not (isinstance(x.value, ast.Constant) and x.value.value is None) for x in _shallow(node)):
            _drop_tail_void_returns(node.body)          # (only for procedures: nothing returns a value)
        self.qual = qual
        self.module = module
        self.cls = cls          # ClassDef or None
        self.node = node
        self.name = node.name
        a = node.args
        self.params = [x.arg for x in a.posonlyargs + a.args]
        self.defaults = dict(zip(reversed(self.params), reversed(a.defaults)))
        self.static = cls is not None and len(node.decorator_list) == 1 and isinstance(node.decorator_list[0], ast.Name) and node.decorator_list[0].id == 'staticmethod'
        # a classmethod reached through an instance: `cls` stands for type(instance); as long as the body uses cls only to reach other methods/class attributes
        # (never calls cls(..) or compares it), the instance itself serves
        self.classmethod = cls is not None and len(node.decorator_list) == 1 and isinstance(node.decorator_list[0], ast.Name) and node.decorator_list[0].id == 'classmethod'
        self.is_method = cls is not None
        body = list(node.body)
        if body and isinstance(body[0], ast.Expr) and isinstance(body[0].value, ast.Constant) and isinstance(body[0].value.value, str):
            body = body[1:]
        body = [b for b in body if not isinstance(b, (ast.Global, ast.Nonlocal))]
        self.body = body
        self.expr = body[0].value if len(body) == 1 and isinstance(body[0], ast.Return) and body[0].value is not None else None
        self.unique = False
        self.parent = None          # enclosing FunctionDef for a nested helper (a closure)
        self.holder = None
        self.nonlocals = {nm for x in _shallow(node) if isinstance(x, ast.Nonlocal) for nm in x.names}

    def eligible(self):
        n = self.node
        a = n.args
        if (n.decorator_list and not (self.static or self.classmethod)) or isinstance(n, ast.AsyncFunctionDef) or a.kwonlyargs:
            return False
        if self.classmethod:
            c0 = self.params[0] if self.params else None
            for x in _shallow(n):
                if isinstance(x, ast.Name) and x.id == c0:
                    pass
            uses = [x for x in _shallow(n) if isinstance(x, ast.Name) and x.id == c0]
            as_recv = {id(x.value) for x in _shallow(n) if isinstance(x, ast.Attribute) and isinstance(x.value, ast.Name) and x.value.id == c0}
            if any(id(u) not in as_recv for u in uses):
                return False
        if a.vararg or a.kwarg:
            # *args / **kwargs that the helper only passes on (`f(*args, **kwargs)`) can be bound to the caller's own starred arguments
            star = {x.arg for x in (a.vararg, a.kwarg) if x is not None}
            passed = set()
            for x in _shallow(n):
                if isinstance(x, ast.Starred) and isinstance(x.value, ast.Name) and x.value.id in star:
                    passed.add(id(x.value))
                elif isinstance(x, ast.keyword) and x.arg is None and isinstance(x.value, ast.Name) and x.value.id in star:
                    passed.add(id(x.value))
            if any(isinstance(x, ast.Name) and x.id in star and id(x) not in passed for x in _shallow(n)):
                return False
        if self.is_method and not self.params and not self.static:
            return False
        if not self.body:
            return False
        for x in _shallow(n):
            if isinstance(x, (ast.Yield, ast.YieldFrom, ast.Await, ast.Global, ast.Nonlocal, ast.FunctionDef, ast.AsyncFunctionDef, ast.ClassDef, ast.Lambda,
                              ast.ListComp, ast.SetComp, ast.DictComp, ast.GeneratorExp, ast.Try, ast.Delete, ast.NamedExpr)):
                # comprehensions have their own scopes; try/finally interacts with return; keep the envelope small
                if isinstance(x, (ast.ListComp, ast.SetComp, ast.DictComp, ast.GeneratorExp)) and self.expr is None:
                    # comprehension variables are scoped to the comprehension: renaming handles them like locals, which is still correct
                    continue
                if isinstance(x, (ast.ListComp, ast.SetComp, ast.DictComp, ast.GeneratorExp)):
                    continue
                if isinstance(x, ast.Try) and not _has_return([x]):
                    continue        # a try block without a return inside moves as a whole
                if isinstance(x, ast.Global) and not (set(x.names) & _stored_names(n.body)):
                    continue        # a `global` declaration for names the helper only reads says nothing
                if isinstance(x, ast.Nonlocal) and self.parent is not None and x in n.body:
                    continue        # a closure inlined into its parent: nonlocal names are the parent's own variables
                return False
            if isinstance(x, ast.Call):
                f = x.func
                if (isinstance(f, ast.Attribute) and f.attr == self.name) or (isinstance(f, ast.Name) and f.id == self.name):
                    return False        # recursion
                if isinstance(f, ast.Name) and f.id in ('locals', 'vars', 'eval', 'exec'):
                    return False
                if isinstance(f, ast.Name) and f.id == 'super' and (x.args or not self.is_method or self.static):
                    return False        # zero-argument super() means the same in every method of the class the helper is inlined into; anything else stays
        # returns inside nested loops cannot be eliminated structurally (one loop level becomes `<assign>; break`)
        for x in _shallow(n):
            if isinstance(x, (ast.For, ast.While)):
                for y in _shallow(x):
                    if isinstance(y, (ast.For, ast.While)) and _has_return(y.body + y.orelse):
                        return False
                if _has_return(x.orelse):
                    return False
        return True


def _nested_defs(fn, q):
    """(nested FunctionDef, its qualified name, the statement list that holds it) for functions nested directly in fn's blocks"""
    out = []

    def rec(stmts):
        for st in stmts:
            if isinstance(st, ast.FunctionDef):
                out.append((st, q + '.' + st.name, stmts))
                continue
            if isinstance(st, ast.ClassDef):
                continue
            for f in ('body', 'orelse', 'finalbody'):
                if isinstance(getattr(st, f, None), list):
                    rec(getattr(st, f))
            for hd in getattr(st, 'handlers', []) or []:
                rec(hd.body)
    rec(fn.body)
    return out


def collect_helpers(modules, baseline, nested_baseline=None):
    out = {}
    nested_baseline = nested_baseline if nested_baseline is not None else baseline_nested()

    def add_nested(m, fn, q, depth=0):
        for d, dq, holder in _nested_defs(fn, q):
            if dq not in nested_baseline and dq not in baseline and not getattr(d, '_keep_nested', False):
                h = Helper(dq, m, None, d)
                h.parent = fn
                h.holder = holder
                out[dq] = h
            if depth < 2:
                add_nested(m, d, dq, depth + 1)
    for m in modules.values():
        for st in m.tree.body:
            if isinstance(st, ast.FunctionDef):
                add_nested(m, st, '%s.%s' % (m.name, st.name))
            elif isinstance(st, ast.ClassDef):
                for s2 in st.body:
                    if isinstance(s2, ast.FunctionDef):
                        add_nested(m, s2, '%s.%s.%s' % (m.name, st.name, s2.name))
    for m in modules.values():
        for st in m.tree.body:
            if isinstance(st, ast.FunctionDef):
                q = '%s.%s' % (m.name, st.name)
                if q not in baseline and not (st.name.startswith('__') and st.name.endswith('__')):
                    out[q] = Helper(q, m, None, st)
            elif isinstance(st, ast.ClassDef):
                for s2 in st.body:
                    if isinstance(s2, ast.FunctionDef):
                        q = '%s.%s.%s' % (m.name, st.name, s2.name)
                        if q not in baseline and not (s2.name.startswith('__') and s2.name.endswith('__')):
                            out[q] = Helper(q, m, st, s2)
    return out


# ----------------------------------------------------------------------------------------------- return elimination

def eliminate_returns(stmts, emit):
    """stmts with every `return v` (all in tail position) replaced by emit(v) -> [stmts]; raises Unsupported otherwise.
    The rest of a block after an `if` whose branch returns is moved into the other branch (guard clause -> if/else)."""
    out = []
    for i, s in enumerate(stmts):
        rest = stmts[i + 1:]
        if isinstance(s, ast.Return):
            out.extend(emit(s.value))
            return out
        if not _has_return([s]):
            out.append(s)
            continue
        if isinstance(s, ast.If):
            body_ret = _always_returns(s.body)
            else_ret = _always_returns(s.orelse) if s.orelse else False
            nb = list(s.body) + ([] if body_ret else [copy.deepcopy(x) for x in rest])
            ne = list(s.orelse) + ([] if else_ret else [copy.deepcopy(x) for x in rest])
            if not body_ret and not else_ret and rest and _has_return(s.body) and _has_return(s.orelse):
                raise Unsupported('returns in both branches with a shared continuation')
            new = ast.If(test=s.test, body=eliminate_returns(nb, emit) or [ast.Pass()], orelse=eliminate_returns(ne, emit))
            ast.copy_location(new, s)
            out.append(new)
            return out
        if isinstance(s, ast.With):
            if rest and not _always_returns(s.body):
                raise Unsupported('return inside with followed by more statements')
            new = ast.With(items=s.items, body=eliminate_returns(list(s.body), emit) or [ast.Pass()])
            ast.copy_location(new, s)
            out.append(new)
            if _always_returns(s.body):
                return out
            continue
        if isinstance(s, (ast.While, ast.For)):
            endless = isinstance(s, ast.While) and isinstance(s.test, ast.Constant) and bool(s.test.value)
            has_break = any(isinstance(n, ast.Break) for n in _loop_level(s.body))
            normal_exit = (not endless) or has_break
            if rest and normal_exit:
                raise Unsupported('return inside a loop that is followed by more statements')
            new = copy.copy(s)
            new.body = _loop_elim(list(s.body), emit)
            if normal_exit:
                tail = emit(None)
                if tail:
                    if has_break:
                        raise Unsupported('loop with both break and return')
                    new.orelse = tail
            out.append(new)
            return out
        raise Unsupported('return inside %s' % type(s).__name__)
    # fell off the end: implicit return None
    out.extend(emit(None))
    return out


def _loops_forever(stmts):
    return bool(stmts) and isinstance(stmts[-1], ast.While) and isinstance(stmts[-1].test, ast.Constant) and bool(stmts[-1].test.value)


def _loop_level(stmts):
    """statements of a loop body that belong to this loop level (not to nested loops / defs)"""
    for s in stmts:
        yield s
        if isinstance(s, (ast.For, ast.While, ast.FunctionDef, ast.AsyncFunctionDef, ast.ClassDef)):
            continue
        for f in ('body', 'orelse', 'finalbody'):
            if isinstance(getattr(s, f, None), list):
                yield from _loop_level(getattr(s, f))


def _loop_elim(stmts, emit):
    out = []
    for s in stmts:
        if isinstance(s, ast.Return):
            out.extend(emit(s.value))
            out.append(ast.copy_location(ast.Break(), s))
            return out
        if not _has_return([s]):
            out.append(s)
            continue
        if isinstance(s, ast.If):
            new = ast.If(test=s.test, body=_loop_elim(list(s.body), emit) or [ast.Pass()], orelse=_loop_elim(list(s.orelse), emit))
            out.append(ast.copy_location(new, s))
            continue
        if isinstance(s, ast.With):
            new = ast.With(items=s.items, body=_loop_elim(list(s.body), emit) or [ast.Pass()])
            out.append(ast.copy_location(new, s))
            continue
        raise Unsupported('return inside %s inside a loop' % type(s).__name__)
    return out


# ----------------------------------------------------------------------------------------------- substitution

class Rename(ast.NodeTransformer):
    def __init__(self, names, exprs):
        self.names = names      # local name -> new name
        self.exprs = exprs      # name -> replacement expression (loads only)

    def visit_Name(self, n):
        if n.id in self.exprs and isinstance(n.ctx, ast.Load):
            return ast.copy_location(copy.deepcopy(self.exprs[n.id]), n)
        if n.id in self.names:
            return ast.copy_location(ast.Name(id=self.names[n.id], ctx=n.ctx), n)
        return n

    def visit_arg(self, n):
        return n


def _only_called(stmts, p, lam):
    """every occurrence of the name p in stmts is the callee of a call with plain positional arguments matching the lambda"""
    la = lam.args
    if la.vararg or la.kwarg or la.kwonlyargs or la.defaults or la.posonlyargs:
        return False
    callees = set()
    n_occ = 0
    for s in stmts:
        for n in ast.walk(s):
            if isinstance(n, ast.Call) and isinstance(n.func, ast.Name) and n.func.id == p:
                if n.keywords or len(n.args) != len(la.args) or not all(isinstance(a, (ast.Name, ast.Attribute, ast.Constant)) for a in n.args):
                    return False
                callees.add(id(n.func))
    for s in stmts:
        for n in ast.walk(s):
            if isinstance(n, ast.Name) and n.id == p:
                n_occ += 1
                if id(n) not in callees:
                    return False
    return n_occ > 0


class _Beta(ast.NodeTransformer):
    """(lambda x: body)(arg)  ->  body[x := arg]  for lambda-valued parameters of an inlined helper"""

    def __init__(self, lambdas):
        self.lambdas = lambdas

    def visit_Call(self, n):
        self.generic_visit(n)
        if isinstance(n.func, ast.Name) and n.func.id in self.lambdas:
            lam = self.lambdas[n.func.id]
            mapping = {a.arg: arg for a, arg in zip(lam.args.args, n.args)}
            return ast.copy_location(Rename({}, mapping).visit(copy.deepcopy(lam.body)), n)
        return n


def _simplify_bool(e):
    """`False or x` -> x, `True and x` -> x, `True or x` -> True, `False and x` -> False, `not <const>` folded (after constant parameters were substituted)"""
    if isinstance(e, ast.UnaryOp) and isinstance(e.op, ast.Not):
        v = _simplify_bool(e.operand)
        if isinstance(v, ast.Constant) and isinstance(v.value, (bool, type(None))):
            return ast.copy_location(ast.Constant(value=not v.value), e)
        e.operand = v
        return e
    if isinstance(e, ast.BoolOp):
        vals = [_simplify_bool(v) for v in e.values]
        is_or = isinstance(e.op, ast.Or)
        out = []
        for i, v in enumerate(vals):
            if isinstance(v, ast.Constant) and isinstance(v.value, (bool, type(None))):
                if bool(v.value) == is_or:
                    # decides the whole expression unless an earlier operand has effects (calls): keep those
                    if not any(isinstance(n, ast.Call) for o in out for n in ast.walk(o)):
                        return ast.copy_location(ast.Constant(value=bool(v.value)), e)
                    out.append(v)
                    break
                continue        # neutral element
            out.append(v)
        if not out:
            return ast.copy_location(ast.Constant(value=not is_or), e)
        if len(out) == 1:
            return out[0]
        e.values = out
        return e
    if isinstance(e, ast.Compare) and len(e.ops) == 1 and isinstance(e.left, ast.Constant) and isinstance(e.comparators[0], ast.Constant) \
            and isinstance(e.ops[0], (ast.Eq, ast.NotEq, ast.Is, ast.IsNot)):
        # a comparison of two literals (a constant argument met a literal after inlining): decided.  `is` between literals is only folded for the singletons
        a, b = e.left.value, e.comparators[0].value
        if isinstance(e.ops[0], (ast.Eq, ast.NotEq)) and type(a) in (str, int, bool, type(None), float) and type(b) in (str, int, bool, type(None), float):
            return ast.copy_location(ast.Constant(value=(a == b) == isinstance(e.ops[0], ast.Eq)), e)
        if isinstance(e.ops[0], (ast.Is, ast.IsNot)) and (a is None or b is None or (isinstance(a, bool) and isinstance(b, bool))):
            return ast.copy_location(ast.Constant(value=(a is b) == isinstance(e.ops[0], ast.Is)), e)
    return e


def _fold(stmts):
    """dead-branch elimination after constant parameters were substituted: `if True: A else: B` -> A"""
    out = []
    for s in stmts:
        for f in ('body', 'orelse', 'finalbody'):
            if isinstance(getattr(s, f, None), list) and not isinstance(s, ast.ClassDef):
                # (also the bodies of nested functions: a closure reads the substituted parameter like any other statement)
                setattr(s, f, _fold(getattr(s, f)) or ([ast.copy_location(ast.Pass(), s)] if f == 'body' else []))
        if isinstance(s, ast.Try):
            for hd in s.handlers:
                hd.body = _fold(hd.body)
        if isinstance(s, (ast.If, ast.While)):
            s.test = _simplify_bool(s.test)
        if isinstance(s, ast.If):
            t = s.test
            neg = False
            while isinstance(t, ast.UnaryOp) and isinstance(t.op, ast.Not):
                t = t.operand
                neg = not neg
            if isinstance(t, ast.Constant) and isinstance(t.value, (bool, type(None), int)):
                v = bool(t.value) != neg
                out.extend(s.body if v else s.orelse)
                continue
            if not s.body:
                s.body = [ast.copy_location(ast.Pass(), s)]
        out.append(s)
    return out


def _names_in(node):
    return {n.id for n in ast.walk(node) if isinstance(n, ast.Name)}


def _stored_names(stmts):
    out = set()
    for s in stmts:
        for n in ast.walk(s):
            if isinstance(n, ast.Name) and isinstance(n.ctx, (ast.Store, ast.Del)):
                out.add(n.id)
    return out


def _simple_arg(a):
    if isinstance(a, ast.Constant):
        return True
    if isinstance(a, ast.Name):
        return True
    # a named constant (signals.SUBSCRIBE_META_SIGNAL, return_status.HANDLED, Class.QUEUE_SIZE): reading it commutes with everything
    if isinstance(a, ast.Attribute) and a.attr.isupper() and _pure(a):
        return True
    return False


def instantiate(h, call, caller_node, recv, target_names=None):
    """(prologue stmts, body stmts with locals renamed and parameters bound, return-name hints).  Raises Unsupported."""
    params = h.params[1:] if (h.is_method and not h.static) else list(h.params)
    bound = {}
    star_names = {}
    va, ka = h.node.args.vararg, h.node.args.kwarg
    cargs = list(call.args)
    ckws = list(call.keywords)
    if va is not None:
        if not (cargs and isinstance(cargs[-1], ast.Starred) and isinstance(cargs[-1].value, ast.Name) and len(cargs) - 1 <= len(params)):
            raise Unsupported('helper takes *%s: the call must pass one starred name' % va.arg)
        star_names[va.arg] = cargs.pop().value.id
    if ka is not None:
        dbl = [k for k in ckws if k.arg is None]
        if not (len(dbl) == 1 and isinstance(dbl[0].value, ast.Name)):
            raise Unsupported('helper takes **%s: the call must pass one double-starred name' % ka.arg)
        star_names[ka.arg] = dbl[0].value.id
        ckws = [k for k in ckws if k.arg is not None]
    if len(cargs) > len(params):
        raise Unsupported('too many arguments')
    for p, a in zip(params, cargs):
        if isinstance(a, ast.Starred):
            raise Unsupported('starred argument')
        bound[p] = a
    for kw in ckws:
        if kw.arg is None or kw.arg not in params or kw.arg in bound:
            raise Unsupported('keyword argument')
        bound[kw.arg] = kw.value
    for p in params:
        if p not in bound:
            if p in h.defaults:
                bound[p] = h.defaults[p]
            else:
                raise Unsupported('missing argument')
    stored = _stored_names(h.body) - h.nonlocals
    caller_names = _names_in(caller_node)
    arg_names = set()
    for a in bound.values():
        arg_names |= _names_in(a)
    exprs = {}
    names = dict(star_names)
    prologue = []
    if h.is_method and not h.static:
        exprs[h.params[0]] = recv
        if h.params[0] in stored:
            raise Unsupported('helper rebinds self')
    used_new = set()

    def fresh(base):
        cand = base
        k = 0
        while cand in caller_names or cand in used_new or cand in arg_names:
            k += 1
            cand = '%s__%s%s' % (base, h.name.strip('_'), '' if k == 1 else str(k))
        used_new.add(cand)
        return cand
    body_has_calls = any(isinstance(n, ast.Call) for s in h.body for n in ast.walk(s))
    lambdas = {}
    for p in params:
        a = bound[p]
        if isinstance(a, ast.Lambda) and p not in stored and _only_called(h.body, p, a):
            lambdas[p] = a
            continue
        once_pure = h.expr is not None and _pure(a) and sum(1 for n in ast.walk(h.expr) if isinstance(n, ast.Name) and n.id == p) <= 1
        if p not in stored and (_simple_arg(a) or once_pure) and not (isinstance(a, ast.Name) and a.id in stored and a.id != p) and not (target_names and p in target_names):
            if isinstance(a, ast.Name) and a.id == p:
                continue            # same name, nothing to do
            exprs[p] = a
        else:
            newp = target_names[p] if (target_names and p in target_names) else fresh(p)
            used_new.add(newp)
            names[p] = newp
            asg = ast.Assign(targets=[ast.Name(id=newp, ctx=ast.Store())], value=copy.deepcopy(a), lineno=call.lineno, col_offset=call.col_offset)
            prologue.append(asg)
    for loc in sorted(stored):
        if loc in names or loc in exprs:
            continue
        if loc in params:
            continue
        if target_names and loc in target_names:
            names[loc] = target_names[loc]        # returned into this caller variable
            used_new.add(names[loc])
            continue
        if loc in caller_names or loc in arg_names:
            names[loc] = fresh(loc)
    body = [copy.deepcopy(s) for s in h.body]
    if lambdas:
        body = [_Beta(lambdas).visit(s) for s in body]
    body = [Rename(names, exprs).visit(s) for s in body]
    body = _fold(body)
    return prologue, body, names


# ----------------------------------------------------------------------------------------------- call sites

def _first_evaluated_call(stmt, call):
    """is `call` the first call the statement evaluates (so that hoisting it in front of the statement preserves order)?"""
    e = None
    if isinstance(stmt, (ast.Expr, ast.Return)):
        e = stmt.value
    elif isinstance(stmt, ast.Assign):
        e = stmt.value
        for t in stmt.targets:
            if any(isinstance(n, ast.Call) for n in ast.walk(t)):
                return False
    elif isinstance(stmt, ast.If):
        e = stmt.test
    if e is None:
        return False
    while True:
        if e is call:
            return True
        if isinstance(e, (ast.Yield, ast.Await)) and e.value is not None:
            e = e.value
            continue
        if isinstance(e, ast.UnaryOp):
            e = e.operand
        elif isinstance(e, ast.Compare):
            e = e.left
        elif isinstance(e, ast.BoolOp):
            e = e.values[0]
        elif isinstance(e, ast.BinOp):
            e = e.left
        elif isinstance(e, ast.Call) and e is not call:
            # the callee expression is evaluated first, then the arguments from the left
            if _pure(e.func):
                if e.args:
                    e = e.args[0]
                elif e.keywords:
                    e = e.keywords[0].value
                else:
                    return False
            elif isinstance(e.func, ast.Attribute):
                e = e.func.value
            else:
                return False
        elif isinstance(e, ast.Attribute):
            e = e.value
        elif isinstance(e, ast.Subscript):
            e = e.value
        elif isinstance(e, ast.Tuple) and e.elts:
            e = e.elts[0]
        else:
            return False


def _pure(x):
    """evaluating x has no effect: names, constants, attribute chains over them, super()"""
    if isinstance(x, (ast.Name, ast.Constant)):
        return True
    if isinstance(x, ast.Attribute):
        return _pure(x.value)
    if isinstance(x, ast.Call) and isinstance(x.func, ast.Name) and x.func.id == 'super' and not x.args and not x.keywords:
        return True
    return False


class _ReplaceNode(ast.NodeTransformer):
    def __init__(self, old, new):
        self.old, self.new = old, new

    def visit(self, node):
        if node is self.old:
            return self.new
        return super().visit(node)


def _matches(call, h, selfnames):
    f = call.func
    if h.is_method:
        if not (isinstance(f, ast.Attribute) and f.attr == h.name and isinstance(f.value, ast.Name)):
            return False
        # `self.helper(..)`; or, for a helper whose name is defined once in the whole package, `other.helper(..)` on another object of the class;
        # a static helper may also be reached through the class name
        return f.value.id in selfnames or h.unique or (h.static and h.cls is not None and f.value.id == h.cls.name)
    return isinstance(f, ast.Name) and f.id == h.name


def _tmpname(h, used):
    base = '%s_result' % h.name.strip('_')
    cand = base
    k = 1
    while cand in used:
        k += 1
        cand = '%s%d' % (base, k)
    return cand


def inline_into_function(fn, h, selfnames, counter):
    """rewrite fn (a FunctionDef) in place; returns number of sites inlined; raises Unsupported if some site cannot be inlined"""
    n_sites = [0]

    def expr_inline(call):
        # pure expression helper: substitute in place
        prologue, body, names = instantiate(h, call, fn, call.func.value if h.is_method else None)
        if prologue:
            raise Unsupported('expression helper needs parameter binding')
        return body[0].value

    def do_block(stmts):
        out = []
        for st in stmts:
            # nested function definitions share `self` through the closure: descend with the same rule
            if isinstance(st, (ast.FunctionDef, ast.AsyncFunctionDef)):
                if st is not h.node:
                    st.body = do_block(st.body)
                out.append(st)
                continue
            if isinstance(st, ast.ClassDef):
                out.append(st)
                continue
            # calls in the header expressions of this statement
            header = []
            if isinstance(st, (ast.Expr, ast.Return, ast.Assign, ast.AugAssign, ast.AnnAssign, ast.Assert, ast.Raise)):
                header = [st]
            hdr_calls = []
            if isinstance(st, (ast.If, ast.While)):
                hdr_calls = [c for c in ast.walk(st.test) if isinstance(c, ast.Call) and _matches(c, h, selfnames)]
            elif isinstance(st, ast.For):
                hdr_calls = [c for c in ast.walk(st.iter) if isinstance(c, ast.Call) and _matches(c, h, selfnames)]
            elif isinstance(st, ast.With):
                hdr_calls = [c for it in st.items for c in ast.walk(it.context_expr) if isinstance(c, ast.Call) and _matches(c, h, selfnames)]
            elif header:
                hdr_calls = [c for c in ast.walk(st) if isinstance(c, ast.Call) and _matches(c, h, selfnames)]
            pre = []
            for c in hdr_calls:
                n_sites[0] += 1
                if h.expr is not None:
                    try:
                        new = expr_inline(c)
                        st = _ReplaceNode(c, new).visit(st)
                        continue
                    except Unsupported:
                        pass
                if len(hdr_calls) != 1:
                    raise Unsupported('several calls of the helper in one statement')
                if isinstance(st, (ast.While, ast.For, ast.With, ast.AugAssign, ast.AnnAssign, ast.Assert, ast.Raise)):
                    raise Unsupported('helper call in the header of %s' % type(st).__name__)
                if not _first_evaluated_call(st, c):
                    raise Unsupported('helper call is not the first evaluation of its statement')
                recv = c.func.value if h.is_method else None
                # ---- statement forms
                if isinstance(st, ast.Return) and st.value is c:
                    prologue, body, names = instantiate(h, c, fn, recv)
                    pre = prologue + body
                    if not _always_returns(body):
                        pre.append(ast.copy_location(ast.Return(value=None), st))
                    st = None
                    break
                if isinstance(st, ast.Expr) and st.value is c:
                    prologue, body, names = instantiate(h, c, fn, recv)

                    def emit(v, st=st):
                        if v is not None and any(isinstance(n, ast.Call) for n in ast.walk(v)):
                            return [ast.copy_location(ast.Expr(value=v), st)]
                        return []
                    pre = prologue + (eliminate_returns(body, emit) or [])
                    st = None
                    break
                # (a store into shared state - attribute or subscript target - happens after the helper has returned, outside whatever `with`/`try` the helper's
                # return statement sits in: those go through the temporary of the hoist form below, so the store keeps its place)
                if isinstance(st, ast.Assign) and st.value is c and len(st.targets) == 1 and \
                        (isinstance(st.targets[0], ast.Name) or (isinstance(st.targets[0], ast.Tuple) and all(isinstance(e, ast.Name) for e in st.targets[0].elts))):
                    tgt = st.targets[0]
                    tnames = None
                    if isinstance(tgt, ast.Name):
                        tnames = {tgt.id}
                    elif isinstance(tgt, ast.Tuple) and all(isinstance(e, ast.Name) for e in tgt.elts):
                        tnames = {e.id for e in tgt.elts}
                    # a helper variable that is what every return hands to a caller variable takes that variable's name
                    hints = {}
                    if tnames and not any(isinstance(x, ast.Try) for x in ast.walk(fn)):
                        rets = [n for s in h.body for n in ([s] + list(_shallow(s))) if isinstance(n, ast.Return)]
                        tg = tgt.elts if isinstance(tgt, ast.Tuple) else [tgt]
                        per_pos = [set() for _ in tg]
                        okh = bool(rets) and _always_returns(h.body) or _loops_forever(h.body)
                        for r in rets:
                            if r.value is None:
                                okh = False
                                break
                            vals = r.value.elts if (isinstance(r.value, ast.Tuple) and isinstance(tgt, ast.Tuple)) else [r.value]
                            if len(vals) != len(tg):
                                okh = False
                                break
                            for k, v in enumerate(vals):
                                per_pos[k].add(v.id if isinstance(v, ast.Name) else None)
                        if okh:
                            hparams = h.params[1:] if (h.is_method and not h.static) else list(h.params)
                            argmap = dict(zip(hparams, c.args))
                            for kw in c.keywords:
                                argmap[kw.arg] = kw.value
                            for k, t in enumerate(tg):
                                if len(per_pos[k]) == 1 and None not in per_pos[k]:
                                    v = next(iter(per_pos[k]))
                                    others = set()
                                    for pn, a in argmap.items():
                                        if pn != v:
                                            others |= _names_in(a)
                                    if v in hints or t.id in hints.values() or t.id in others:
                                        continue
                                    if v == (h.params[0] if (h.is_method and not h.static) else None):
                                        continue
                                    hints[v] = t.id
                    prologue, body, names = instantiate(h, c, fn, recv, target_names=hints)

                    def emit(v, st=st, tgt=tgt):
                        v = v if v is not None else ast.Constant(value=None)
                        # `a, b = a, b` after name unification is a no-op
                        if isinstance(tgt, ast.Tuple) and isinstance(v, ast.Tuple) and len(tgt.elts) == len(v.elts) and \
                                all(isinstance(x, ast.Name) and isinstance(y, ast.Name) and x.id == y.id for x, y in zip(tgt.elts, v.elts)):
                            return []
                        if isinstance(tgt, ast.Name) and isinstance(v, ast.Name) and tgt.id == v.id:
                            return []
                        a = ast.Assign(targets=[copy.deepcopy(tgt)], value=v)
                        return [ast.copy_location(a, st)]
                    pre = prologue + eliminate_returns(body, emit)
                    st = None
                    break
                # ---- hoist: tmp = helper(...) in front of the statement
                tmp = _tmpname(h, _names_in(fn))
                prologue, body, names = instantiate(h, c, fn, recv)

                def emit(v, st=st, tmp=tmp):
                    v = v if v is not None else ast.Constant(value=None)
                    a = ast.Assign(targets=[ast.Name(id=tmp, ctx=ast.Store())], value=v)
                    return [ast.copy_location(a, st)]
                pre = prologue + eliminate_returns(body, emit)
                st = _ReplaceNode(c, ast.copy_location(ast.Name(id=tmp, ctx=ast.Load()), c)).visit(st)
            for p in pre:
                ast.fix_missing_locations(p)
            # inlined bodies may themselves contain nested blocks with further calls of other helpers: handled in later rounds
            out.extend(pre)
            if st is None:
                continue
            for field in ('body', 'orelse', 'finalbody'):
                if hasattr(st, field) and isinstance(getattr(st, field), list):
                    setattr(st, field, do_block(getattr(st, field)))
            if isinstance(st, ast.Try):
                for hd in st.handlers:
                    hd.body = do_block(hd.body)
            out.append(st)
        return out
    fn.body = do_block(fn.body)
    ast.fix_missing_locations(fn)
    return n_sites[0]


def _remove_nested(fn, node):
    def rec(stmts):
        for i, st in enumerate(stmts):
            if st is node:
                del stmts[i]
                if not stmts:
                    stmts.append(ast.copy_location(ast.Pass(), node))
                return True
            for f in ('body', 'orelse', 'finalbody'):
                if isinstance(getattr(st, f, None), list) and rec(getattr(st, f)):
                    return True
            for hd in getattr(st, 'handlers', []) or []:
                if rec(hd.body):
                    return True
        return False
    rec(fn.body)


def _references(modules, h):
    """(call sites, other references) of the helper's name across the package"""
    calls = 0
    other = 0
    for m in modules.values():
        callfuncs = set()
        for n in ast.walk(m.tree):
            if isinstance(n, ast.Call):
                callfuncs.add(id(n.func))
        for n in ast.walk(m.tree):
            if isinstance(n, ast.Attribute) and n.attr == h.name:
                if id(n) in callfuncs:
                    calls += 1
                else:
                    other += 1
            elif isinstance(n, ast.Name) and n.id == h.name and not h.is_method:
                if id(n) in callfuncs:
                    calls += 1
                else:
                    other += 1
            elif isinstance(n, ast.Constant) and isinstance(n.value, str) and n.value == h.name:
                other += 1          # getattr(self, '<name>')
    return calls, other


def inline_fresh_helpers(modules, baseline=None, rounds=4):
    """mutates the module trees; returns [(helper qualname, [caller names], status)]"""
    baseline = baseline if baseline is not None else baseline_names()
    log = []
    for _ in range(40):
        helpers = collect_helpers(modules, baseline)
        progressed = False
        # innermost first: helpers that call no other fresh helper
        names = {h.name for h in helpers.values()}
        order = sorted(helpers.values(), key=lambda h: sum(1 for n in ast.walk(h.node) if isinstance(n, ast.Call) and
                                                          ((isinstance(n.func, ast.Attribute) and n.func.attr in names) or (isinstance(n.func, ast.Name) and n.func.id in names))))
        for h in order:
            if any(l[0] == h.qual and l[2] != 'inlined' for l in log):
                continue
            if not h.eligible():
                log.append((h.qual, [], 'kept: outside the inlining envelope'))
                continue
            h.unique = sum(1 for m_ in modules.values() for n_ in ast.walk(m_.tree) if isinstance(n_, (ast.FunctionDef, ast.AsyncFunctionDef)) and n_.name == h.name) == 1
            calls, other = _references(modules, h)
            if other or not calls:
                log.append((h.qual, [], 'kept: referenced other than by direct calls' if other else 'kept: never called'))
                continue
            # candidate caller functions: same class (methods, with their nested functions) for methods; same module for functions
            m = h.module
            if h.parent is not None:
                fns = [h.parent]
                # the closure must only be called inside its parent, and must not be captured by a sibling closure that outlives the call
                inside = sum(1 for n in ast.walk(h.parent) if isinstance(n, ast.Call) and isinstance(n.func, ast.Name) and n.func.id == h.name
                             and not any(n is x for x in ast.walk(h.node)))
                if inside != calls:
                    log.append((h.qual, [], 'kept: called outside its parent'))
                    continue
            elif h.is_method:
                fns = [s for s in h.cls.body if isinstance(s, ast.FunctionDef) and s is not h.node]
                if h.unique:
                    # a method name defined once in the package means the same thing when a subclass calls it through self
                    classes = {c.name: c for m_ in modules.values() for c in ast.walk(m_.tree) if isinstance(c, ast.ClassDef)}
                    desc, grew = {h.cls.name}, True
                    while grew:
                        grew = False
                        for c in classes.values():
                            if c.name not in desc and any((isinstance(b, ast.Name) and b.id in desc) or (isinstance(b, ast.Attribute) and b.attr in desc) for b in c.bases):
                                desc.add(c.name)
                                grew = True
                    for cn in sorted(desc - {h.cls.name}):
                        fns += [s for s in classes[cn].body if isinstance(s, ast.FunctionDef)]
                    # ... and when a decorator factory's wrapper (module level, `def wrapper(self, ...)`) or a method of an unrelated class calls it on its receiver
                    have_ = {id(x) for x in fns}
                    for m_ in modules.values():
                        for st in m_.tree.body:
                            if isinstance(st, ast.FunctionDef) and id(st) not in have_ and st is not h.node:
                                fns.append(st)
                            elif isinstance(st, ast.ClassDef) and st.name not in desc:
                                fns.extend(s for s in st.body if isinstance(s, ast.FunctionDef) and id(s) not in have_ and s is not h.node)
            else:
                fns = []
                for st in m.tree.body:
                    if isinstance(st, ast.FunctionDef) and st is not h.node:
                        fns.append(st)
                    elif isinstance(st, ast.ClassDef):
                        fns.extend(s for s in st.body if isinstance(s, ast.FunctionDef))
            backup = {id(fn): copy.deepcopy(fn) for fn in fns}
            done = 0
            callers = []
            try:
                for fn in fns:
                    selfnames = {fn.args.args[0].arg} if (h.is_method and fn.args.args) else set()
                    k = inline_into_function(fn, h, selfnames, None)
                    if k:
                        callers.append(fn.name)
                    done += k
                if done != calls:
                    raise Unsupported('%d of %d call sites are outside the class/module or use another receiver' % (done, calls))
            except Unsupported as ex:
                # restore (the restored bodies are copies: the helper objects collected for this round no longer point into the tree, so the round ends here)
                for fn in fns:
                    b = backup[id(fn)]
                    fn.body = b.body
                log.append((h.qual, [], 'kept: %s' % ex))
                progressed = True
                break
            # remove the definition (a helper with a public name stays: it is new API as well, and is analysed like any other function)
            if h.parent is not None:
                _remove_nested(h.parent, h.node)
            elif not is_private(h.name):
                pass
            elif h.is_method:
                h.cls.body.remove(h.node)
            else:
                m.tree.body.remove(h.node)
            log.append((h.qual, callers, 'inlined'))
            progressed = True
            break           # helper set changed: recompute
        if not progressed:
            break
    return log


# ----------------------------------------------------------------------------------------------- parametrised factories

def specialise_fresh_factories(modules, baseline=None):
    """`X = _fresh_factory(<constants>)` at module or class level, where the fresh private factory is
           def _fresh_factory(p, ..):  [docstring]  def inner(..): ...   return inner
       becomes `def X(..): <body of inner with p := constant>` (a closure over constants is the function with the constants written in).
       The factory definition is removed when every use was specialised."""
    baseline = baseline if baseline is not None else baseline_names()
    log = []
    for m in modules.values():
        facs = {}
        for st in m.tree.body:
            if isinstance(st, ast.FunctionDef) and ('%s.%s' % (m.name, st.name)) not in baseline and not st.decorator_list:
                body = list(st.body)
                if body and isinstance(body[0], ast.Expr) and isinstance(body[0].value, ast.Constant) and isinstance(body[0].value.value, str):
                    body = body[1:]
                a = st.args
                if len(body) == 2 and isinstance(body[0], ast.FunctionDef) and isinstance(body[1], ast.Return) and isinstance(body[1].value, ast.Name) \
                        and body[1].value.id == body[0].name and not (a.vararg or a.kwarg or a.kwonlyargs or a.defaults):
                    params = [x.arg for x in a.posonlyargs + a.args]
                    stored = {n.id for n in ast.walk(body[0]) if isinstance(n, ast.Name) and isinstance(n.ctx, ast.Store)}
                    if not (set(params) & stored):
                        facs[st.name] = (st, body[0], params)
        if not facs:
            continue
        uses = {k: 0 for k in facs}
        done = {k: 0 for k in facs}
        # (a load of the name inside the factory's own body is a local of the same spelling - the innermost wrapper is often named like the factory - or recursion)
        inside = {k: {id(x) for x in ast.walk(v[0])} for k, v in facs.items()}
        for n in ast.walk(m.tree):
            if isinstance(n, ast.Name) and n.id in facs and isinstance(n.ctx, ast.Load) and id(n) not in inside[n.id]:
                uses[n.id] += 1

        def rewrite(stmts):
            out = []
            for st in stmts:
                if isinstance(st, ast.ClassDef):
                    st.body = rewrite(st.body)
                if isinstance(st, ast.Assign) and len(st.targets) == 1 and isinstance(st.targets[0], ast.Name) and isinstance(st.value, ast.Call) \
                        and isinstance(st.value.func, ast.Name) and st.value.func.id in facs and not st.value.keywords \
                        and all(isinstance(x, ast.Constant) for x in st.value.args):
                    fdef, inner, params = facs[st.value.func.id]
                    if len(st.value.args) == len(params):
                        new = copy.deepcopy(inner)
                        new.name = st.targets[0].id
                        mapping = dict(zip(params, st.value.args))
                        new.body = [Rename({}, mapping).visit(x) for x in new.body]
                        ast.copy_location(new, st)
                        ast.fix_missing_locations(new)
                        out.append(new)
                        done[st.value.func.id] += 1
                        continue
                out.append(st)
            return out
        m.tree.body = rewrite(m.tree.body)
        for k, (fdef, inner, params) in facs.items():
            if done[k] and done[k] == uses[k]:
                m.tree.body.remove(fdef)
                log.append(('%s.%s' % (m.name, k), ['<%d bindings>' % done[k]], 'specialised'))
            elif done[k]:
                log.append(('%s.%s' % (m.name, k), [], 'partly specialised (%d of %d uses)' % (done[k], uses[k])))
    return log


# ----------------------------------------------------------------------------------------------- closures lifted to methods

def nest_lifted_closures(modules, baseline=None, nested=None):
    """a fresh private method whose name (without leading underscores) is that of a function that was nested in its only caller in the baseline tree
    is put back as a nested function of that caller (the inverse of "lift a closure to a method"): `self._helper(a)` -> `helper(a)`, the helper's
    self parameter becomes the caller's self through the closure"""
    baseline = baseline if baseline is not None else baseline_names()
    nested = nested if nested is not None else baseline_nested()
    log = []
    for m in modules.values():
        for cls in [st for st in m.tree.body if isinstance(st, ast.ClassDef)]:
            for hdef in [s2 for s2 in cls.body if isinstance(s2, ast.FunctionDef)]:
                q = '%s.%s.%s' % (m.name, cls.name, hdef.name)
                if q in baseline or not is_private(hdef.name):
                    continue
                h = Helper(q, m, cls, hdef)
                if (hdef.decorator_list and not h.static) or hdef.args.vararg or hdef.args.kwarg:
                    continue
                plain = hdef.name.lstrip('_')
                callers = [c for c in cls.body if isinstance(c, ast.FunctionDef) and c is not hdef and
                           ('%s.%s.%s.%s' % (m.name, cls.name, c.name, plain) in nested or '%s.%s.%s.%s' % (m.name, cls.name, c.name, hdef.name) in nested)]
                if not callers:
                    # the same edit with a new name: the only caller had a closure in the baseline, has none of them now, and the fresh method is called from nowhere else
                    for c in cls.body:
                        if not isinstance(c, ast.FunctionDef) or c is hdef:
                            continue
                        pref = '%s.%s.%s.' % (m.name, cls.name, c.name)
                        base_nested = {x[len(pref):] for x in nested if x.startswith(pref) and '.' not in x[len(pref):]}
                        if not base_nested:
                            continue
                        present = {d.name for d, _q, _h in _nested_defs(c, pref[:-1])}
                        calls_here = any(isinstance(n, ast.Call) and isinstance(n.func, ast.Attribute) and n.func.attr == hdef.name for n in ast.walk(c))
                        if calls_here and not (base_nested & present):
                            callers.append(c)
                if len(callers) != 1:
                    continue
                caller = callers[0]
                calls, other = _references(modules, h)
                selfn = caller.args.args[0].arg if caller.args.args else None
                inside = [n for n in ast.walk(caller) if isinstance(n, ast.Call) and isinstance(n.func, ast.Attribute) and n.func.attr == hdef.name
                          and isinstance(n.func.value, ast.Name) and n.func.value.id in (selfn, cls.name)]
                # plain references `self._helper` (a bound method handed to Thread(target=...), for example) inside the same caller are the closure by name
                callfuncs_ = {id(n.func) for n in ast.walk(caller) if isinstance(n, ast.Call)}
                refs_inside = [n for n in ast.walk(caller) if isinstance(n, ast.Attribute) and n.attr == hdef.name and isinstance(n.ctx, ast.Load) and id(n) not in callfuncs_
                               and isinstance(n.value, ast.Name) and n.value.id == selfn and not h.static]
                if (other != len(refs_inside)) or not (inside or refs_inside) or len(inside) != calls:
                    continue
                if any(isinstance(n, ast.Name) and n.id == plain for n in ast.walk(caller)):
                    continue            # the plain name is taken in the caller
                new = copy.deepcopy(hdef)
                new.name = plain
                new.decorator_list = []
                new._keep_nested = True
                if not h.static:
                    hs = new.args.args[0].arg
                    new.args.args = new.args.args[1:]
                    if hs != selfn:
                        new.body = [Rename({hs: selfn}, {}).visit(x) for x in new.body]
                for c in inside:
                    c.func = ast.copy_location(ast.Name(id=plain, ctx=ast.Load()), c.func)
                if refs_inside:
                    ids_ = {id(r_) for r_ in refs_inside}

                    class _Ref(ast.NodeTransformer):
                        def visit_Attribute(self, n):
                            if id(n) in ids_:
                                return ast.copy_location(ast.Name(id=plain, ctx=ast.Load()), n)
                            return self.generic_visit(n)
                    caller.body = [_Ref().visit(x) for x in caller.body]
                pos = 1 if (caller.body and isinstance(caller.body[0], ast.Expr) and isinstance(caller.body[0].value, ast.Constant) and isinstance(caller.body[0].value.value, str)) else 0
                caller.body.insert(pos, new)
                cls.body.remove(hdef)
                ast.fix_missing_locations(caller)
                log.append((q, [caller.name], 'nested back into its caller'))
    return log


# ----------------------------------------------------------------------------------------------- conditional expressions at statement level

class _IfExpToIf(ast.NodeTransformer):
    """`t = a if c else b` -> `if c: t = a else: t = b`;  `return a if c else b` -> `if c: return a else: return b`  (same evaluation order)"""

    def _split(self, st, mk):
        v = st.value
        new = ast.If(test=v.test, body=[mk(v.body)], orelse=[mk(v.orelse)])
        ast.copy_location(new, st)
        ast.fix_missing_locations(new)
        return self.visit(new)

    def visit_Assign(self, st):
        self.generic_visit(st)
        if isinstance(st.value, ast.IfExp) and not any(isinstance(n, ast.Call) for t in st.targets for n in ast.walk(t)):
            return self._split(st, lambda v: ast.copy_location(ast.Assign(targets=copy.deepcopy(st.targets), value=v), st))
        return st

    def visit_Return(self, st):
        self.generic_visit(st)
        if isinstance(st.value, ast.IfExp):
            return self._split(st, lambda v: ast.copy_location(ast.Return(value=v), st))
        return st


def split_conditional_expressions(modules):
    for m in modules.values():
        m.tree = _IfExpToIf().visit(m.tree)
        ast.fix_missing_locations(m.tree)


# ----------------------------------------------------------------------------------------------- diagnostics

LOG_METHODS = {'debug', 'info', 'warning', 'warn', 'error', 'exception', 'critical', 'log'}
PURE_FUNCS = {'str', 'repr', 'len', 'int', 'float', 'bool', 'type', 'id', 'format', 'isinstance', 'getattr', 'hasattr', 'tuple', 'list', 'sorted', 'max', 'min', 'sum', 'abs', 'dict', 'set', 'frozenset', 'round'}


def _pure_expr(e):
    """evaluating e changes nothing: names, constants, attribute/subscript chains, operators, f-strings, pure builtins, str.format/join"""
    for n in ast.walk(e):
        if isinstance(n, ast.Call):
            f = n.func
            if isinstance(f, ast.Name) and f.id in PURE_FUNCS:
                continue
            if isinstance(f, ast.Attribute) and f.attr in ('format', 'join', 'get', 'keys', 'values', 'items', 'copy', 'qsize', 'is_set', 'is_alive', 'getLogger', 'getName'):
                continue
            return False
        if isinstance(n, (ast.Await, ast.Yield, ast.YieldFrom, ast.NamedExpr, ast.Lambda)):
            return False
    return True


def _is_log_call(c, loggers=()):
    f = c.func
    try:
        if ast.unparse(f) in ('sys.stderr.write', 'sys.stderr.flush', 'sys.stderr.writelines', 'warnings.warn'):
            return True
        if isinstance(f, ast.Name) and f.id == 'print' and any(k.arg == 'file' and ast.unparse(k.value) == 'sys.stderr' for k in c.keywords):
            return True
    except Exception:
        pass
    if not isinstance(f, ast.Attribute) or f.attr not in LOG_METHODS:
        return False
    recv = f.value
    d = None
    try:
        d = ast.unparse(recv)
    except Exception:
        return False
    if d == 'logging' or d.startswith('logging.getLogger(') or d == 'warnings':
        return True
    if d in loggers or d.split('.')[-1] in loggers:
        return True
    last = d.split('.')[-1].lower()
    return last in ('log', 'logger', '_log', '_logger', 'logging') or last.endswith('_log') or last.endswith('_logger')


def _logger_names(modules):
    """names (module level, class level, or attributes of self) bound to logging.getLogger(..)"""
    out = set()
    for m in modules.values():
        for n in ast.walk(m.tree):
            if isinstance(n, ast.Assign) and isinstance(n.value, ast.Call):
                try:
                    f = ast.unparse(n.value.func)
                except Exception:
                    continue
                if f in ('logging.getLogger', 'getLogger'):
                    for t in n.targets:
                        if isinstance(t, ast.Name):
                            out.add(t.id)
                        elif isinstance(t, ast.Attribute):
                            out.add(t.attr)
    return out


def _diag_only_body(stmts, loggers, diag_funcs, locals_):
    """every statement only computes effect-free locals, returns nothing, or logs"""
    for st in stmts:
        if isinstance(st, ast.Pass) or (isinstance(st, ast.Expr) and isinstance(st.value, ast.Constant)):
            continue
        if isinstance(st, ast.Return) and (st.value is None or (isinstance(st.value, ast.Constant) and st.value.value is None)):
            continue
        if isinstance(st, ast.If) and _pure_expr(st.test):
            if _diag_only_body(st.body, loggers, diag_funcs, locals_) and _diag_only_body(st.orelse, loggers, diag_funcs, locals_):
                continue
            return False
        if isinstance(st, ast.Assign) and all(isinstance(t, ast.Name) for t in st.targets) and _pure_expr(st.value):
            locals_.update(t.id for t in st.targets)
            continue
        if isinstance(st, ast.AugAssign) and isinstance(st.target, ast.Name) and st.target.id in locals_ and _pure_expr(st.value):
            continue
        if isinstance(st, ast.Expr) and isinstance(st.value, ast.Call):
            c = st.value
            args_ok = all(_pure_expr(a.value if isinstance(a, ast.Starred) else a) for a in c.args) and all(_pure_expr(k.value) for k in c.keywords)
            if args_ok and (_is_log_call(c, loggers) or (isinstance(c.func, ast.Name) and c.func.id in diag_funcs)):
                continue
        if isinstance(st, ast.For) and isinstance(st.target, ast.Name) and _pure_expr(st.iter) and not st.orelse:
            locals_.add(st.target.id)
            if _diag_only_body(st.body, loggers, diag_funcs, locals_):
                continue
        return False
    return True


def _diag_functions(modules, loggers, baseline):
    """fresh module-level functions that do nothing but log (their parameters are only read): a call to one, as a statement with effect-free arguments,
    says nothing about any property"""
    out = set()
    changed = True
    while changed:
        changed = False
        for m in modules.values():
            for st in m.tree.body:
                if not isinstance(st, ast.FunctionDef) or st.name in out or st.decorator_list:
                    continue
                if '%s.%s' % (m.name, st.name) in baseline:
                    continue
                if any(isinstance(n, (ast.Global, ast.Nonlocal, ast.Yield, ast.YieldFrom)) for n in ast.walk(st)):
                    continue
                params = {a.arg for a in st.args.args + st.args.kwonlyargs} | ({st.args.vararg.arg} if st.args.vararg else set()) | ({st.args.kwarg.arg} if st.args.kwarg else set())
                has_log = any(isinstance(n, ast.Call) and (_is_log_call(n, loggers) or (isinstance(n.func, ast.Name) and n.func.id in out)) for n in ast.walk(st))
                if has_log and _diag_only_body(st.body, loggers, out, set(params)):
                    # locals only: no store through a parameter
                    out.add(st.name)
                    changed = True
    return out


class _StripDiagnostics(ast.NodeTransformer):
    def __init__(self, loggers=(), diag_funcs=()):
        self.n = 0
        self.loggers = loggers
        self.diag_funcs = diag_funcs

    def _strip(self, stmts):
        out = []
        for st in stmts:
            if isinstance(st, ast.Expr) and isinstance(st.value, ast.Call):
                c = st.value
                args_ok = all(_pure_expr(a.value if isinstance(a, ast.Starred) else a) for a in c.args) and all(_pure_expr(k.value) for k in c.keywords)
                if args_ok and (_is_log_call(c, self.loggers) or (isinstance(c.func, ast.Name) and c.func.id in self.diag_funcs)):
                    self.n += 1
                    continue
            if isinstance(st, ast.If) and _pure_expr(st.test) and self.n and all(isinstance(x, ast.Pass) for x in st.body) and not st.orelse and getattr(st, '_emptied', False):
                continue
            out.append(st)
        return out

    def generic_visit(self, node):
        super().generic_visit(node)
        for f in ('body', 'orelse', 'finalbody'):
            v = getattr(node, f, None)
            if isinstance(v, list) and v and isinstance(v[0], ast.stmt):
                new = self._strip(v)
                if not new and f == 'body':
                    new = [ast.copy_location(ast.Pass(), v[0])]
                    if len(v) != 0 and not all(isinstance(x, ast.Pass) for x in v):
                        node._emptied = True        # the block held diagnostics only
                setattr(node, f, new)
        if isinstance(node, ast.If) and getattr(node, '_emptied', False) and node.orelse and all(isinstance(x, ast.Pass) for x in node.orelse):
            node.orelse = []
        return node


def strip_diagnostics(modules, baseline=None):
    """logging statements with effect-free arguments say nothing about any property: they are dropped before analysis, together with calls of fresh
    helper functions that do nothing but log and the `if <flag>:` blocks that held nothing else"""
    n = 0
    baseline = baseline_names() if baseline is None else baseline
    loggers = _logger_names(modules)
    diag = _diag_functions(modules, loggers, baseline)
    for m in modules.values():
        t = _StripDiagnostics(loggers, diag)
        m.tree = t.visit(m.tree)
        n += t.n
        if diag:
            m.tree.body = [st for st in m.tree.body if not (isinstance(st, ast.FunctionDef) and st.name in diag)]
    return n


def strip_annotations(modules):
    """type annotations carry no behaviour: `x: T = v` becomes `x = v`, a bare `x: T` disappears, parameter and return annotations are dropped"""
    n = 0

    class T(ast.NodeTransformer):
        def visit_AnnAssign(self, st):
            nonlocal n
            n += 1
            if st.value is None:
                return ast.copy_location(ast.Pass(), st)
            return ast.copy_location(ast.Assign(targets=[st.target], value=st.value), st)

        def _fn(self, fn):
            nonlocal n
            self.generic_visit(fn)
            for a in fn.args.posonlyargs + fn.args.args + fn.args.kwonlyargs + ([fn.args.vararg] if fn.args.vararg else []) + ([fn.args.kwarg] if fn.args.kwarg else []):
                if a.annotation is not None:
                    a.annotation = None
                    n += 1
            if fn.returns is not None:
                fn.returns = None
                n += 1
            return fn
        visit_FunctionDef = _fn
        visit_AsyncFunctionDef = _fn
    for m in modules.values():
        m.tree = ast.fix_missing_locations(T().visit(m.tree))
    return n


# ----------------------------------------------------------------------------------------------- one spelling for string formatting

def canonical_string_formatting(modules):
    """f-strings and `'..%s..' % (..)` are rewritten to the '..{}..'.format(..) spelling (the one the pinned tree uses), so that rules about the text a
    statement builds see one form.  Only rewrites whose meaning is identical are made: plain fields, !r/!s/!a conversions, constant format specs; %s %d %r."""
    import re as _re
    n = 0

    class T(ast.NodeTransformer):
        def visit_JoinedStr(self, e):
            nonlocal n
            self.generic_visit(e)
            tmpl, args = '', []
            for v in e.values:
                if isinstance(v, ast.Constant) and isinstance(v.value, str):
                    tmpl += v.value.replace('{', '{{').replace('}', '}}')
                elif isinstance(v, ast.FormattedValue):
                    fld = ''
                    if v.conversion in (114, 115, 97):
                        fld += '!' + chr(v.conversion)
                    elif v.conversion != -1:
                        return e
                    if v.format_spec is not None:
                        if not (isinstance(v.format_spec, ast.JoinedStr) and all(isinstance(x, ast.Constant) for x in v.format_spec.values)):
                            return e
                        fld += ':' + ''.join(x.value for x in v.format_spec.values)
                    tmpl += '{' + fld + '}'
                    args.append(v.value)
                else:
                    return e
            if not args:
                return ast.copy_location(ast.Constant(value=tmpl.replace('{{', '{').replace('}}', '}')), e)
            n += 1
            return ast.copy_location(ast.Call(func=ast.Attribute(value=ast.Constant(value=tmpl), attr='format', ctx=ast.Load()), args=args, keywords=[]), e)

        def visit_BinOp(self, e):
            nonlocal n
            self.generic_visit(e)
            if isinstance(e.op, ast.Add) and isinstance(e.left, ast.Constant) and isinstance(e.right, ast.Constant) and isinstance(e.left.value, str) and isinstance(e.right.value, str):
                return ast.copy_location(ast.Constant(value=e.left.value + e.right.value), e)
            if not (isinstance(e.op, ast.Mod) and isinstance(e.left, ast.Constant) and isinstance(e.left.value, str)):
                return e
            t = e.left.value
            fields = _re.findall(r'%(.)', t)
            ph = [f for f in fields if f != '%']
            if not ph or any(f not in 'sdr' for f in ph) or '{' in t or '}' in t:
                return e
            if isinstance(e.right, ast.Tuple):
                args = list(e.right.elts)
            elif len(ph) == 1 and not isinstance(e.right, (ast.Dict, ast.Starred)):
                args = [e.right]
            else:
                return e
            if len(args) != len(ph) or any(isinstance(a, ast.Starred) for a in args):
                return e
            tmpl = _re.sub(r'%(.)', lambda m_: {'s': '{}', 'd': '{}', 'r': '{!r}', '%': '%'}[m_.group(1)], t)
            n += 1
            return ast.copy_location(ast.Call(func=ast.Attribute(value=ast.Constant(value=tmpl), attr='format', ctx=ast.Load()), args=args, keywords=[]), e)
    import string as _string

    class F(ast.NodeTransformer):
        """'a{}b{}'.format(x, 'lit') -> 'a{}blit'.format(x): constant arguments of plain auto-numbered fields are written into the template"""
        def visit_Call(self, c):
            nonlocal n
            self.generic_visit(c)
            f = c.func
            if not (isinstance(f, ast.Attribute) and f.attr == 'format' and isinstance(f.value, ast.Constant) and isinstance(f.value.value, str)) or c.keywords:
                return c
            if any(isinstance(a, ast.Starred) for a in c.args) or not any(isinstance(a, ast.Constant) and isinstance(a.value, (str, int)) and not isinstance(a.value, bool) for a in c.args):
                return c
            try:
                parts = list(_string.Formatter().parse(f.value.value))
            except ValueError:
                return c
            fields = [p_ for p_ in parts if p_[1] is not None]
            if len(fields) != len(c.args) or any(p_[1] != '' for p_ in fields):
                return c
            tmpl, args, i = '', [], 0
            for lit, fld, spec, conv in parts:
                tmpl += lit.replace('{', '{{').replace('}', '}}')
                if fld is None:
                    continue
                a = c.args[i]
                i += 1
                if isinstance(a, ast.Constant) and isinstance(a.value, (str, int)) and not isinstance(a.value, bool) and not spec and not conv:
                    tmpl += str(a.value).replace('{', '{{').replace('}', '}}')
                else:
                    tmpl += '{' + ('!' + conv if conv else '') + (':' + spec if spec else '') + '}'
                    args.append(a)
            n += 1
            if not args:
                return ast.copy_location(ast.Constant(value=tmpl.replace('{{', '{').replace('}}', '}')), c)
            return ast.copy_location(ast.Call(func=ast.Attribute(value=ast.Constant(value=tmpl), attr='format', ctx=ast.Load()), args=args, keywords=[]), c)
    for m in modules.values():
        m.tree = ast.fix_missing_locations(F().visit(T().visit(m.tree)))
    return n


# ----------------------------------------------------------------------------------------------- fresh named constants

def baseline_constants():
    p = os.path.join(HERE, 'baseline_names.json')
    with open(p) as fh:
        return set(json.load(fh).get('constants', []))


RE_FUNCS = {'search', 'match', 'fullmatch', 'findall', 'finditer', 'split', 'sub', 'subn'}


def _hoistable(v):
    """an expression whose value is immutable and does not depend on when it is evaluated"""
    if isinstance(v, ast.Constant):
        return True
    if isinstance(v, ast.Tuple):
        return all(_hoistable(x) for x in v.elts)
    if isinstance(v, ast.UnaryOp) and isinstance(v.op, (ast.USub, ast.UAdd, ast.Not)):
        return _hoistable(v.operand)
    if isinstance(v, ast.BinOp) and isinstance(v.op, (ast.Add, ast.Mult, ast.Sub, ast.BitOr)):
        return _hoistable(v.left) and _hoistable(v.right)
    if isinstance(v, ast.Attribute) and isinstance(v.value, ast.Name) and v.value.id == 're' and v.attr.isupper():
        return True
    if isinstance(v, ast.Call) and isinstance(v.func, ast.Attribute) and isinstance(v.func.value, ast.Name) and v.func.value.id == 're' and v.func.attr == 'compile':
        return all(_hoistable(a) for a in v.args) and all(_hoistable(k.value) for k in v.keywords)
    if isinstance(v, ast.Call) and isinstance(v.func, ast.Name) and v.func.id == 'frozenset' and len(v.args) <= 1 and not v.keywords:
        return all(isinstance(a, (ast.Tuple, ast.List, ast.Set)) and all(_hoistable(x) for x in a.elts) for a in v.args)
    return False


def _bound_in(fn):
    """names bound in the scope of fn itself (parameters, assignments, loop/with/except targets, imports, nested defs)"""
    out = {a.arg for a in fn.args.posonlyargs + fn.args.args + fn.args.kwonlyargs}
    if fn.args.vararg:
        out.add(fn.args.vararg.arg)
    if fn.args.kwarg:
        out.add(fn.args.kwarg.arg)
    for n in _shallow(fn):
        if isinstance(n, ast.Name) and isinstance(n.ctx, (ast.Store, ast.Del)):
            out.add(n.id)
        elif isinstance(n, (ast.FunctionDef, ast.AsyncFunctionDef, ast.ClassDef)):
            out.add(n.name)
        elif isinstance(n, ast.alias):
            out.add((n.asname or n.name).split('.')[0])
        elif isinstance(n, ast.ExceptHandler) and n.name:
            out.add(n.name)
    return out


class _FoldCompiledRegex(ast.NodeTransformer):
    """re.compile(P[, F]).search(x) -> re.search(P, x[, flags=F])"""
    def __init__(self):
        self.n = 0

    def visit_Call(self, c):
        self.generic_visit(c)
        f = c.func
        if isinstance(f, ast.Attribute) and f.attr in RE_FUNCS and isinstance(f.value, ast.Call) and isinstance(f.value.func, ast.Attribute) \
                and isinstance(f.value.func.value, ast.Name) and f.value.func.value.id == 're' and f.value.func.attr == 'compile' and f.value.args:
            comp = f.value
            kws = list(c.keywords)
            flags = comp.args[1] if len(comp.args) > 1 else next((k.value for k in comp.keywords if k.arg == 'flags'), None)
            if flags is not None:
                kws.append(ast.keyword(arg='flags', value=flags))
            self.n += 1
            return ast.copy_location(ast.Call(func=ast.Attribute(value=ast.Name(id='re', ctx=ast.Load()), attr=f.attr, ctx=ast.Load()),
                                              args=[comp.args[0]] + list(c.args), keywords=kws), c)
        return c


def propagate_fresh_constants(modules, baseline=None):
    """A name that the pinned tree does not have, bound exactly once (at module or class level) to an immutable literal expression and never stored to again,
    is a spelling of that literal: its uses are written out.  Names the pinned tree already has (QUEUE_SIZE, the ring sizes, signals ...) are left alone -
    rules refer to those by name."""
    import copy
    baseline = baseline_constants() if baseline is None else baseline
    notes = []
    # every name/attribute stored anywhere in the package (to rule out re-binding)
    stored_attr, global_decl = {}, set()
    for m in modules.values():
        for n in ast.walk(m.tree):
            if isinstance(n, ast.Attribute) and isinstance(n.ctx, (ast.Store, ast.Del)):
                stored_attr[n.attr] = stored_attr.get(n.attr, 0) + 1
            elif isinstance(n, ast.Global):
                global_decl.update(n.names)
            elif isinstance(n, ast.Call) and isinstance(n.func, ast.Name) and n.func.id == 'setattr' and len(n.args) >= 2:
                if isinstance(n.args[1], ast.Constant) and isinstance(n.args[1].value, str):
                    stored_attr[n.args[1].value] = stored_attr.get(n.args[1].value, 0) + 1
    # class-level candidates: the attribute name must be unique in the package (one class-level binding, no instance/class store anywhere)
    class_bind = {}
    for m in modules.values():
        for c in ast.walk(m.tree):
            if isinstance(c, ast.ClassDef):
                for st in c.body:
                    if isinstance(st, ast.Assign):
                        for t in st.targets:
                            if isinstance(t, ast.Name):
                                class_bind.setdefault(t.id, []).append((m, c, st))
    for m in modules.values():
        # ---- module level
        binds = {}
        for st in ast.walk(m.tree):
            if isinstance(st, (ast.Assign, ast.AugAssign, ast.AnnAssign)):
                pass
        top_stores = {}
        for st in m.tree.body:
            for n in ([st] if not isinstance(st, (ast.FunctionDef, ast.AsyncFunctionDef, ast.ClassDef)) else []):
                for x in ast.walk(n):
                    if isinstance(x, ast.Name) and isinstance(x.ctx, (ast.Store, ast.Del)):
                        top_stores[x.id] = top_stores.get(x.id, 0) + 1
        for st in m.tree.body:
            pairs_ = []
            if isinstance(st, ast.Assign) and len(st.targets) == 1 and isinstance(st.targets[0], ast.Name) and _hoistable(st.value):
                pairs_ = [(st.targets[0].id, st.value)]
            elif isinstance(st, ast.Assign) and len(st.targets) == 1 and isinstance(st.targets[0], ast.Tuple) and isinstance(st.value, ast.Tuple) \
                    and len(st.targets[0].elts) == len(st.value.elts) and all(isinstance(t_, ast.Name) for t_ in st.targets[0].elts) and all(_hoistable(v_) for v_ in st.value.elts):
                pairs_ = [(t_.id, v_) for t_, v_ in zip(st.targets[0].elts, st.value.elts)]       # A, B = 'a', 'b'
            for nm, val_ in pairs_:
                if '%s.%s' % (m.name, nm) in baseline or nm in global_decl or top_stores.get(nm, 0) != 1 or stored_attr.get(nm):
                    continue
                if nm.startswith('__') and nm.endswith('__'):
                    continue
                binds[nm] = val_
        # a candidate may be defined in terms of an earlier one
        for _ in range(3):
            for nm, v in list(binds.items()):
                class S(ast.NodeTransformer):
                    def visit_Name(self, x):
                        if isinstance(x.ctx, ast.Load) and x.id in binds and x.id != nm:
                            return copy.deepcopy(binds[x.id])
                        return x
                binds[nm] = S().visit(copy.deepcopy(v))
        if binds:
            count = {'n': 0}

            # a new module-level boolean that is *tested* is a switch the user may flip at run time (DEBUG = False): it stays a name where its truth is
            # asked for; everywhere else (default values, arguments, comparisons) the literal is written out
            def rewrite(node, shadow, truth=False):
                for fld, val in ast.iter_fields(node):
                    tr = (fld == 'test' and isinstance(node, (ast.If, ast.While, ast.IfExp, ast.Assert))) or \
                        (truth and ((isinstance(node, ast.BoolOp) and fld == 'values') or (isinstance(node, ast.UnaryOp) and isinstance(node.op, ast.Not) and fld == 'operand')))
                    if isinstance(val, list):
                        for i, ch in enumerate(val):
                            if isinstance(ch, ast.AST):
                                val[i] = rewrite_node(ch, shadow, tr)
                    elif isinstance(val, ast.AST):
                        setattr(node, fld, rewrite_node(val, shadow, tr))
                return node

            def rewrite_node(ch, shadow, truth=False):
                if isinstance(ch, (ast.FunctionDef, ast.AsyncFunctionDef, ast.Lambda)):
                    sh = shadow | (_bound_in(ch) if not isinstance(ch, ast.Lambda) else {a.arg for a in ch.args.args})
                    return rewrite(ch, sh)
                if isinstance(ch, ast.ClassDef):
                    sh = shadow | {t.id for st in ch.body if isinstance(st, ast.Assign) for t in st.targets if isinstance(t, ast.Name)}
                    return rewrite(ch, sh)
                if isinstance(ch, ast.Name) and isinstance(ch.ctx, ast.Load) and ch.id in binds and ch.id not in shadow:
                    if truth and isinstance(binds[ch.id], ast.Constant) and (isinstance(binds[ch.id].value, bool) or binds[ch.id].value is None):
                        return ch
                    count['n'] += 1
                    return ast.copy_location(copy.deepcopy(binds[ch.id]), ch)
                return rewrite(ch, shadow, truth)
            rewrite(m.tree, set())
            if count['n']:
                notes.append((m.name, [], 'fresh module constants written out at %d uses: %s' % (count['n'], ', '.join(sorted(binds)))))
    # ---- class level
    cbinds = {}
    for nm, lst in class_bind.items():
        if len(lst) != 1:
            continue
        m, c, st = lst[0]
        # (a class-level alias of a class of the package - `descriptor_class = ThreadSafeAttribute`, a hook for subclasses - is a constant of the same kind)
        class_alias = isinstance(st.value, ast.Name) and any(isinstance(d_, ast.ClassDef) and d_.name == st.value.id for m_ in modules.values() for d_ in m_.tree.body)
        if '%s.%s.%s' % (m.name, c.name, nm) in baseline or stored_attr.get(nm) or not (_hoistable(st.value) or class_alias) or len(st.targets) != 1:
            continue
        if nm.startswith('__') and nm.endswith('__'):
            continue
        # no module-level or local name of the same spelling is an attribute, so `<anything>.NAME` can only be this binding ... unless another object carries
        # an attribute of that name through a constructor keyword / namedtuple field: require the name to be upper-case (the constant convention), or a name
        # that occurs nowhere in the pinned inventory, as a keyword or as text
        if not nm.isupper() and not (nm.startswith('_') and nm[1:].isupper()):
            elsewhere = nm in baseline_attributes() or any((isinstance(x_, ast.keyword) and x_.arg == nm) or (isinstance(x_, ast.Constant) and isinstance(x_.value, str) and nm in x_.value.split())
                                                           or (isinstance(x_, ast.arg) and x_.arg == nm) for m_ in modules.values() for x_ in ast.walk(m_.tree))
            if elsewhere:
                continue
        cbinds[nm] = st.value
    if cbinds:
        cnt = {'n': 0}

        class A(ast.NodeTransformer):
            def visit_Attribute(self, x):
                self.generic_visit(x)
                if isinstance(x.ctx, ast.Load) and x.attr in cbinds:
                    cnt['n'] += 1
                    return ast.copy_location(copy.deepcopy(cbinds[x.attr]), x)
                return x

            def visit_ClassDef(self, c):
                # inside the defining class body the bare name is in scope too
                self.generic_visit(c)
                return c
        for m in modules.values():
            m.tree = A().visit(m.tree)
        # bare uses inside the class body itself (other class-level statements)
        if cnt['n']:
            notes.append(('<package>', [], 'fresh class constants written out at %d uses: %s' % (cnt['n'], ', '.join(sorted(cbinds)))))
    nre = 0
    for m in modules.values():
        t = _FoldCompiledRegex()
        m.tree = ast.fix_missing_locations(t.visit(m.tree))
        nre += t.n
    if nre:
        notes.append(('<package>', [], '%d calls on a compiled regular expression written as re.<function>(pattern, ..)' % nre))
    return notes


# ----------------------------------------------------------------------------------------------- fresh state nothing reads (statistics)

def baseline_attributes():
    p = os.path.join(HERE, 'baseline_names.json')
    with open(p) as fh:
        return set(json.load(fh).get('attributes', []))


def strip_fresh_write_only_state(modules, baseline_attrs=None, baseline_funcs=None):
    """An attribute the pinned tree does not have, which is only ever read (a) by the statements that maintain it (`x.n += 1`, `if v > x.hw: x.hw = v`) or
    (b) by new functions that nothing in the package calls (observers: statistics(), describe(), __repr__), cannot influence any behaviour of the
    package.  The statements that maintain it are dropped before analysis; the observers stay (they are analysed like any function)."""
    battrs = baseline_attributes() if baseline_attrs is None else baseline_attrs
    bfuncs = baseline_names() if baseline_funcs is None else baseline_funcs
    # ---- functions, qualified
    funcs = []          # (qual, node)
    for m in modules.values():
        def rec(stmts, q):
            for st in stmts:
                if isinstance(st, (ast.FunctionDef, ast.AsyncFunctionDef)):
                    funcs.append((q + '.' + st.name, st))
                    rec(st.body, q + '.' + st.name)
                elif isinstance(st, ast.ClassDef):
                    rec(st.body, q + '.' + st.name)
                else:
                    for f in ('body', 'orelse', 'finalbody'):
                        if isinstance(getattr(st, f, None), list):
                            rec(getattr(st, f), q)
                    for h in getattr(st, 'handlers', []) or []:
                        rec(h.body, q)
        rec(m.tree.body, m.name)
    refs = {}
    for m in modules.values():
        for n in ast.walk(m.tree):
            if isinstance(n, ast.Name) and isinstance(n.ctx, ast.Load):
                refs[n.id] = refs.get(n.id, 0) + 1
            elif isinstance(n, ast.Attribute) and isinstance(n.ctx, ast.Load):
                refs[n.attr] = refs.get(n.attr, 0) + 1
            elif isinstance(n, ast.Constant) and isinstance(n.value, str) and n.value.isidentifier():
                refs[n.value] = refs.get(n.value, 0) + 1
    IMPLICIT = {'__repr__', '__str__'}
    observers = [node for q, node in funcs if q not in bfuncs and not node.decorator_list and
                 ((node.name in IMPLICIT) or (not refs.get(node.name) and not (node.name.startswith('__') and node.name.endswith('__'))))]
    # property-decorated fresh observers
    observers += [node for q, node in funcs if q not in bfuncs and len(node.decorator_list) == 1 and isinstance(node.decorator_list[0], ast.Name)
                  and node.decorator_list[0].id == 'property' and node.name not in battrs]
    obs_nodes = set()
    for o in observers:
        obs_nodes.update(id(x) for x in ast.walk(o))

    # new module-level containers / counters (`_statistics = {...}` next to the code) are state of the same kind: `'@' + name` stands for them below
    bconsts = baseline_constants()
    modnames = set()
    for m in modules.values():
        for st in m.tree.body:
            if isinstance(st, ast.Assign) and len(st.targets) == 1 and isinstance(st.targets[0], ast.Name) and '%s.%s' % (m.name, st.targets[0].id) not in bconsts:
                v = st.value
                if isinstance(v, (ast.Dict, ast.List, ast.Set)) or (isinstance(v, ast.Call) and isinstance(v.func, ast.Name) and v.func.id in ('dict', 'list', 'set', 'Counter', 'defaultdict', 'OrderedDict')) \
                        or (isinstance(v, ast.Constant) and isinstance(v.value, int) and not isinstance(v.value, bool)):
                    modnames.add(st.targets[0].id)

    def target_attr(t):
        """the attribute a store target writes (X.A, X.A[k], X.A[k][j]), '@name' for a subscript store into a new module-level container, or None"""
        while isinstance(t, ast.Subscript):
            t = t.value
            if isinstance(t, ast.Attribute):
                return t.attr
            if isinstance(t, ast.Name) and t.id in modnames:
                return '@' + t.id
        if isinstance(t, ast.Name) and t.id in modnames:
            return '@' + t.id
        return t.attr if isinstance(t, ast.Attribute) else None
    MUT = {'append', 'extend', 'insert', 'update', 'setdefault', 'add', 'appendleft'}
    # attribute names of the library objects the package holds (queues, threads, events, locks, deques): a store to one of them is not "new state of the package"
    # (`q.unfinished_tasks = 0`, `t.daemon = True`)
    import queue as _q, threading as _th, collections as _co
    foreign_attrs = set()
    for o_ in (_q.Queue(), _q.PriorityQueue(), _q.LifoQueue(), _th.Thread(), _th.Event(), _th.Condition(), _co.deque(), _co.OrderedDict()):
        foreign_attrs.update(a_ for a_ in dir(o_) if not a_.startswith('__'))
    battrs = set(battrs) | foreign_attrs
    cand = set()
    for m in modules.values():
        for n in ast.walk(m.tree):
            if isinstance(n, (ast.Assign, ast.AugAssign)):
                for t in (n.targets if isinstance(n, ast.Assign) else [n.target]):
                    a = target_attr(t)
                    if a and a not in battrs and not (a.startswith('@') and isinstance(t, ast.Name) and not any(isinstance(g_, ast.Global) for g_ in ast.walk(m.tree))):
                        cand.add(a)
    if not cand:
        return []

    def is_stat(st, dead):
        if isinstance(st, ast.Pass):
            return True
        if isinstance(st, (ast.Assign, ast.AugAssign)):
            tg = st.targets if isinstance(st, ast.Assign) else [st.target]
            return all(target_attr(t) in dead for t in tg) and _pure_expr(st.value) and all(_pure_expr(t) for t in tg)
        if isinstance(st, ast.Expr) and isinstance(st.value, ast.Call) and isinstance(st.value.func, ast.Attribute) and st.value.func.attr in MUT:
            base = st.value.func.value
            a = target_attr(base) if isinstance(base, ast.Subscript) else (base.attr if isinstance(base, ast.Attribute) else None)
            return a in dead and all(_pure_expr(x) for x in st.value.args) and all(_pure_expr(k.value) for k in st.value.keywords)
        if isinstance(st, ast.If) and _pure_expr(st.test):
            return all(is_stat(x, dead) for x in st.body) and all(is_stat(x, dead) for x in st.orelse) and not all(isinstance(x, ast.Pass) for x in st.body + st.orelse)
        return False

    def stat_statement_nodes(dead):
        ids = set()
        for m in modules.values():
            for st in ast.walk(m.tree):
                if isinstance(st, ast.stmt) and not isinstance(st, ast.Pass) and is_stat(st, dead):
                    ids.update(id(x) for x in ast.walk(st))
        return ids
    dead = set(cand)
    for _ in range(10):
        harmless = stat_statement_nodes(dead) | obs_nodes
        bad = set()
        for m in modules.values():
            for n in ast.walk(m.tree):
                if isinstance(n, ast.Attribute) and n.attr in dead and isinstance(n.ctx, ast.Load) and id(n) not in harmless:
                    bad.add(n.attr)
                elif isinstance(n, ast.Name) and ('@' + n.id) in dead and isinstance(n.ctx, ast.Load) and id(n) not in harmless:
                    bad.add('@' + n.id)
                elif isinstance(n, ast.Call) and isinstance(n.func, ast.Name) and n.func.id in ('getattr', 'hasattr', 'vars') and id(n) not in harmless:
                    if len(n.args) >= 2 and isinstance(n.args[1], ast.Constant) and n.args[1].value in dead:
                        bad.add(n.args[1].value)
        if not bad:
            break
        dead -= bad
    if not dead:
        return []
    count = {'n': 0}

    class S(ast.NodeTransformer):
        def generic_visit(self, node):
            if id(node) in obs_nodes:
                return node
            super().generic_visit(node)
            for f in ('body', 'orelse', 'finalbody'):
                v = getattr(node, f, None)
                if isinstance(v, list) and v and isinstance(v[0], ast.stmt):
                    new = []
                    for st in v:
                        if not isinstance(st, ast.Pass) and is_stat(st, dead):
                            count['n'] += 1
                            continue
                        new.append(st)
                    if not new and f == 'body':
                        new = [ast.copy_location(ast.Pass(), v[0])]
                    setattr(node, f, new)
            return node
    for m in modules.values():
        m.tree = ast.fix_missing_locations(S().visit(m.tree))
    if not count['n']:
        return []
    return [('<package>', [], '%d statements dropped that only maintain new state nothing but new, uncalled observers read: %s' % (count['n'], ', '.join(sorted(dead))))]


# ----------------------------------------------------------------------------------------------- new optional parameters nobody in the package supplies

def baseline_params():
    p = os.path.join(HERE, 'baseline_names.json')
    with open(p) as fh:
        return json.load(fh).get('params', {})


def _const_value(e):
    """value of an expression made of constants only, or raise ValueError"""
    for n in ast.walk(e):
        if not isinstance(n, (ast.Expression, ast.Constant, ast.Compare, ast.BoolOp, ast.UnaryOp, ast.And, ast.Or, ast.Not, ast.Is, ast.IsNot, ast.Eq, ast.NotEq,
                              ast.In, ast.NotIn, ast.Tuple, ast.Load, ast.USub)):
            raise ValueError
    return eval(compile(ast.fix_missing_locations(ast.Expression(body=copy.deepcopy(e))), '<const>', 'eval'), {'__builtins__': {}})


_RECV_CACHE = {}


def _class_table(modules):
    return {c.name: c for m_ in modules.values() for c in ast.walk(m_.tree) if isinstance(c, ast.ClassDef)}


def _init_owner(modules, cname, _depth=0):
    """name of the class whose __init__ runs when class `cname` of the package is instantiated (first one along the first-base chain), None when unknown / not a class"""
    classes = _class_table(modules)
    k = classes.get(cname)
    while k is not None and _depth < 20:
        if any(isinstance(st, ast.FunctionDef) and st.name == '__init__' for st in k.body):
            return k.name
        b = k.bases[0] if k.bases else None
        bn = b.id if isinstance(b, ast.Name) else (b.attr if isinstance(b, ast.Attribute) else None)
        k = classes.get(bn)
        _depth += 1
    return None


def _init_target(modules, call):
    """for a call `super().__init__(..)` / `Base.__init__(self, ..)`: the name of the class whose __init__ it reaches, None when it cannot be told"""
    f = call.func
    if not (isinstance(f, ast.Attribute) and f.attr == '__init__'):
        return None
    classes = _class_table(modules)
    if isinstance(f.value, ast.Name) and f.value.id in classes:
        return _init_owner(modules, f.value.id)
    if isinstance(f.value, ast.Call) and isinstance(f.value.func, ast.Name) and f.value.func.id == 'super':
        for k in classes.values():
            if any(x is call for x in ast.walk(k)):
                b = k.bases[0] if k.bases else None
                bn = b.id if isinstance(b, ast.Name) else (b.attr if isinstance(b, ast.Attribute) else None)
                # a base outside the package (type, OrderedDict, Exception): certainly not a constructor of the package
                return (_init_owner(modules, bn) or '<external>') if bn in classes else '<external>'
    return None


def _receiver_class(modules, call):
    """the class a call `self.<attr>.<m>(..)` / `<x>.<attr>.<m>(..)` is made on, when <attr> is only ever assigned `ClassName(..)` (or a singleton factory of it) in the
    package and that class defines <m>; None when unknown"""
    key = id(modules)
    if key not in _RECV_CACHE:
        classes = {c.name: c for m_ in modules.values() for c in ast.walk(m_.tree) if isinstance(c, ast.ClassDef)}
        factories = {}
        for m_ in modules.values():
            for st in m_.tree.body:
                if isinstance(st, ast.Assign) and isinstance(st.value, ast.Call) and isinstance(st.value.func, ast.Name) and st.value.args and isinstance(st.value.args[0], ast.Name) \
                        and st.value.args[0].id in classes:
                    for t in st.targets:
                        if isinstance(t, ast.Name):
                            factories[t.id] = st.value.args[0].id
        attrs = {}
        for m_ in modules.values():
            for n in ast.walk(m_.tree):
                if isinstance(n, ast.Assign) and isinstance(n.value, ast.Call) and isinstance(n.value.func, ast.Name):
                    cn = n.value.func.id
                    cn = cn if cn in classes else factories.get(cn)
                    for t in n.targets:
                        if isinstance(t, ast.Attribute):
                            attrs.setdefault(t.attr, set()).add(cn)
        _RECV_CACHE.clear()
        _RECV_CACHE[key] = (classes, attrs)
    classes, attrs = _RECV_CACHE[key]
    f = call.func
    if isinstance(f, ast.Attribute) and isinstance(f.value, ast.Attribute):
        cands = attrs.get(f.value.attr, set())
        if len(cands) == 1 and None not in cands:
            cn = next(iter(cands))
            if any(isinstance(s2, ast.FunctionDef) and s2.name == f.attr for s2 in classes[cn].body):
                return cn
    return None


def _fold_none_locals(body):
    """after a parameter was replaced by its default None: a local bound to None at the top of the function and written again only inside `if <local> is not None:` blocks is
    None throughout; those blocks (and the tests) fold away"""
    cands = [st.targets[0].id for st in body if isinstance(st, ast.Assign) and len(st.targets) == 1 and isinstance(st.targets[0], ast.Name)
             and isinstance(st.value, ast.Constant) and st.value.value is None]
    for v in cands:
        def is_test(t, positive):
            return isinstance(t, ast.Compare) and len(t.ops) == 1 and isinstance(t.left, ast.Name) and t.left.id == v and isinstance(t.comparators[0], ast.Constant) \
                and t.comparators[0].value is None and isinstance(t.ops[0], ast.IsNot if positive else ast.Is)
        ok = True
        n_top = 0

        def scan(stmts, guarded):
            nonlocal ok, n_top
            for st in stmts:
                if isinstance(st, (ast.FunctionDef, ast.Lambda, ast.ClassDef)):
                    if any(isinstance(x, ast.Name) and x.id == v for x in ast.walk(st)):
                        ok = False
                    continue
                if isinstance(st, ast.If):
                    g2 = guarded or is_test(st.test, True) or (isinstance(st.test, ast.BoolOp) and isinstance(st.test.op, ast.And) and any(is_test(x, True) for x in st.test.values))
                    scan(st.body, g2)
                    scan(st.orelse, guarded)
                    continue
                own = [x for x in ast.walk(st) if isinstance(x, ast.Name) and x.id == v and isinstance(x.ctx, (ast.Store, ast.Del))] if not isinstance(st, (ast.For, ast.While, ast.With, ast.Try)) else []
                if own:
                    if isinstance(st, ast.Assign) and isinstance(st.value, ast.Constant) and st.value.value is None and not guarded:
                        n_top += 1
                    elif not guarded:
                        ok = False
                for f in ('body', 'orelse', 'finalbody'):
                    sub = getattr(st, f, None)
                    if isinstance(sub, list) and sub and isinstance(sub[0], ast.stmt):
                        scan(sub, guarded)
                for hd in getattr(st, 'handlers', []) or []:
                    scan(hd.body, guarded)
                if isinstance(st, (ast.For, ast.With)) and any(isinstance(x, ast.Name) and x.id == v and isinstance(x.ctx, ast.Store) for x in ast.walk(st.target if isinstance(st, ast.For) else ast.Tuple(elts=[it.optional_vars for it in st.items if it.optional_vars is not None], ctx=ast.Store()))):
                    ok = False
        scan(body, False)
        if not ok or n_top != 1:
            continue

        class S(ast.NodeTransformer):
            def visit_Compare(self, c):
                if is_test(c, True):
                    return ast.copy_location(ast.Constant(value=False), c)
                if is_test(c, False):
                    return ast.copy_location(ast.Constant(value=True), c)
                return c
        body = _fold([S().visit(st) for st in body])
    return body


def specialise_fresh_optional_params(modules, bparams=None):
    """A parameter the pinned signature does not have, with a constant default, that no call in the package supplies: on every path the properties talk about
    (the pinned API and the package's own calls) it has its default.  The function is analysed with the default written in - `if p is None: p = X` style
    prologues fold away - and the parameter dropped.  A call that does supply it keeps the parameter."""
    bparams = baseline_params() if bparams is None else bparams
    notes = []
    # every call in the package, by callee name
    calls = {}
    for m in modules.values():
        for n in ast.walk(m.tree):
            if isinstance(n, ast.Call):
                nm = n.func.id if isinstance(n.func, ast.Name) else (n.func.attr if isinstance(n.func, ast.Attribute) else None)
                if nm:
                    calls.setdefault(nm, []).append(n)
    refs_by_name = {}
    for m in modules.values():
        for n in ast.walk(m.tree):
            if isinstance(n, ast.keyword) and n.arg:
                refs_by_name.setdefault(n.arg, 0)
                refs_by_name[n.arg] += 1

    def subst(node, pname, value):
        class S(ast.NodeTransformer):
            def visit_Name(self, x):
                if x.id == pname and isinstance(x.ctx, ast.Load):
                    return ast.copy_location(copy.deepcopy(value), x)
                return x
        return S().visit(node)

    def stores(node, pname):
        return any(isinstance(x, ast.Name) and x.id == pname and isinstance(x.ctx, (ast.Store, ast.Del)) for x in ast.walk(node)) or \
            any(isinstance(x, (ast.Global, ast.Nonlocal)) and pname in x.names for x in ast.walk(node))

    def specialise(fn, pname, default):
        val = default
        out = []
        todo = list(fn.body)
        while todo:
            st = todo.pop(0)
            if isinstance(st, ast.If):
                try:
                    v = _const_value(subst(copy.deepcopy(st.test), pname, val))
                    todo = list(st.body if v else st.orelse) + todo
                    continue
                except (ValueError, Exception):
                    pass
            if isinstance(st, ast.Assign) and len(st.targets) == 1 and isinstance(st.targets[0], ast.Name) and st.targets[0].id == pname:
                v2 = subst(copy.deepcopy(st.value), pname, val)
                # (a class constant of the package - `HsmEventProcessor.SPY_RING_BUFFER_SIZE`, `self.__class__.QUEUE_SIZE` - is as good as a literal here)
                class_const = isinstance(v2, ast.Attribute) and v2.attr.isupper() and (
                    (isinstance(v2.value, ast.Name) and v2.value.id in _class_table(modules)) or
                    ast.unparse(v2.value) in ('self.__class__', 'type(self)'))
                if _hoistable(v2) or class_const:
                    val = v2
                    continue
                return None
            if stores(st, pname):
                return None
            out.append(subst(st, pname, val))
        return _fold(out) or [ast.Pass()]
    for m in modules.values():
        fns = []
        for st in m.tree.body:
            if isinstance(st, ast.FunctionDef):
                fns.append(('%s.%s' % (m.name, st.name), st, False))
            elif isinstance(st, ast.ClassDef):
                for s2 in st.body:
                    if isinstance(s2, ast.FunctionDef):
                        fns.append(('%s.%s.%s' % (m.name, st.name, s2.name), s2, True))
        for q, fn, is_method in fns:
            if q not in bparams:
                continue
            old = set(bparams[q])
            a = fn.args
            pos = a.posonlyargs + a.args
            ndef = len(a.defaults)
            cands = []
            for i, arg in enumerate(pos):
                di = i - (len(pos) - ndef)
                if arg.arg not in old and di >= 0 and isinstance(a.defaults[di], ast.Constant):
                    cands.append(('pos', i, arg.arg, a.defaults[di]))
            for i, arg in enumerate(a.kwonlyargs):
                if arg.arg not in old and a.kw_defaults[i] is not None and isinstance(a.kw_defaults[i], ast.Constant):
                    cands.append(('kw', i, arg.arg, a.kw_defaults[i]))
            # only trailing positional parameters can be dropped without shifting the others
            for kind, i, pname, default in reversed(cands):
                pos = a.posonlyargs + a.args
                if kind == 'pos' and i != len(pos) - 1:
                    continue
                supplied = False
                own_cls = q.split('.')[-2] if is_method else None
                cands_ = list(calls.get(fn.name, []))
                if fn.name == '__init__' and is_method:
                    # a constructor is reached by `Cls(..)` for every class whose first __init__ in its base chain is this one, by `super().__init__(..)` from the class
                    # directly below it in such a chain, and by `Base.__init__(self, ..)`
                    cands_ = []
                    for c in calls.get('__init__', []):
                        tgt = _init_target(modules, c)
                        if tgt in (None, own_cls):
                            cands_.append(c)
                    for cname_, cl_ in calls.items():
                        if _init_owner(modules, cname_) == own_cls:
                            for c in cl_:
                                if isinstance(c.func, ast.Name):
                                    # Cls(a, b): positional arguments start at the parameter after self
                                    fake = ast.Call(func=ast.Attribute(value=ast.Name(id='_', ctx=ast.Load()), attr='__init__', ctx=ast.Load()), args=c.args, keywords=c.keywords)
                                    cands_.append(fake)
                for c in cands_:
                    if is_method and _receiver_class(modules, c) not in (None, q.split('.')[-2]):
                        continue        # a call on an attribute known to hold an object of another class that has its own method of this name
                    if any(k.arg == pname or k.arg is None for k in c.keywords) or any(isinstance(x, ast.Starred) for x in c.args):
                        supplied = True
                    elif kind == 'pos' and len(c.args) >= (i if is_method and isinstance(c.func, ast.Attribute) else i + 1):
                        supplied = True         # a positional call long enough to reach the parameter
                if supplied:
                    continue
                backup = copy.deepcopy(fn.body)
                new = specialise(fn, pname, default)
                if new is None:
                    fn.body = backup
                    continue
                fn.body = _fold_none_locals(new)
                if kind == 'pos':
                    (a.args if a.args else a.posonlyargs).pop()
                    a.defaults.pop()
                else:
                    a.kwonlyargs.pop(i)
                    a.kw_defaults.pop(i)
                notes.append((q, [], 'new optional parameter %s (no call in the package supplies it) analysed at its default %s' % (pname, ast.unparse(default))))
        ast.fix_missing_locations(m.tree)
    return notes


# ----------------------------------------------------------------------------------------------- getattr/setattr with a literal name

def canonical_getattr(modules):
    """getattr(x, 'name') -> x.name and setattr(x, 'name', v) -> x.name = v when the name is a literal identifier (two-argument getattr only: a default changes the
    meaning).  After a loop over literal attribute names has been unrolled this gives the attribute accesses the loop stood for."""
    n = 0

    class T(ast.NodeTransformer):
        def visit_Call(self, c):
            nonlocal n
            self.generic_visit(c)
            if isinstance(c.func, ast.Name) and c.func.id == 'getattr' and len(c.args) == 2 and not c.keywords and isinstance(c.args[1], ast.Constant) \
                    and isinstance(c.args[1].value, str) and c.args[1].value.isidentifier() and not c.args[1].value.startswith('__'):
                n += 1
                return ast.copy_location(ast.Attribute(value=c.args[0], attr=c.args[1].value, ctx=ast.Load()), c)
            return c

        # in a truth test `getattr(x, 'name', <falsy constant>)` holds exactly when x has the attribute and it is true; for the objects of the package, which all
        # have it, that is the test `x.name` (an object without it takes the "false" way, as one with a false value does)
        def _truth(self, e):
            nonlocal n
            if isinstance(e, ast.UnaryOp) and isinstance(e.op, ast.Not):
                e.operand = self._truth(e.operand)
            elif isinstance(e, ast.BoolOp):
                e.values = [self._truth(v) for v in e.values]
            elif isinstance(e, ast.Call) and isinstance(e.func, ast.Name) and e.func.id == 'getattr' and len(e.args) == 3 and not e.keywords \
                    and isinstance(e.args[1], ast.Constant) and isinstance(e.args[1].value, str) and e.args[1].value.isidentifier() and not e.args[1].value.startswith('__') \
                    and isinstance(e.args[2], ast.Constant) and not e.args[2].value and e.args[1].value in _known_attributes():
                n += 1
                return ast.copy_location(ast.Attribute(value=e.args[0], attr=e.args[1].value, ctx=ast.Load()), e)
            return e

        def visit_If(self, st):
            self.generic_visit(st)
            st.test = self._truth(st.test)
            return st

        def visit_While(self, st):
            self.generic_visit(st)
            st.test = self._truth(st.test)
            return st

        def visit_IfExp(self, st):
            self.generic_visit(st)
            st.test = self._truth(st.test)
            return st

        def visit_Assert(self, st):
            self.generic_visit(st)
            st.test = self._truth(st.test)
            return st

        def visit_Expr(self, st):
            nonlocal n
            self.generic_visit(st)
            c = st.value
            if isinstance(c, ast.Call) and isinstance(c.func, ast.Name) and c.func.id == 'setattr' and len(c.args) == 3 and not c.keywords and isinstance(c.args[1], ast.Constant) \
                    and isinstance(c.args[1].value, str) and c.args[1].value.isidentifier() and not c.args[1].value.startswith('__'):
                n += 1
                return ast.copy_location(ast.Assign(targets=[ast.Attribute(value=c.args[0], attr=c.args[1].value, ctx=ast.Store())], value=c.args[2]), st)
            return st
    for m in modules.values():
        m.tree = ast.fix_missing_locations(T().visit(m.tree))
    return [('<package>', [], '%d getattr/setattr calls with a literal name written as attribute accesses' % n)] if n else []


# ----------------------------------------------------------------------------------------------- while True: if c: break

def canonical_loop_guards(modules):
    """`while True: if C: break; BODY` (no else on either) is `while not C: BODY`: the test is evaluated at the same moments (on entry and after every pass, also
    after a `continue`).  Rules about "the loop guard" then see the guard wherever it was written."""
    n = 0

    class T(ast.NodeTransformer):
        def visit_While(self, w):
            nonlocal n
            self.generic_visit(w)
            if isinstance(w.test, ast.Constant) and w.test.value in (True, 1) and not w.orelse and len(w.body) >= 2:
                first = w.body[0]
                if isinstance(first, ast.If) and not first.orelse and len(first.body) == 1 and isinstance(first.body[0], ast.Break):
                    c = first.test
                    neg = c.operand if isinstance(c, ast.UnaryOp) and isinstance(c.op, ast.Not) else ast.UnaryOp(op=ast.Not(), operand=c)
                    n += 1
                    return ast.copy_location(ast.While(test=neg, body=w.body[1:], orelse=[]), w)
            return w
    class R(ast.NodeTransformer):
        """the same with `return` (no value) when the loop is the last statement of its function: leaving the loop and leaving the function coincide"""
        def visit_FunctionDef(self, fn):
            nonlocal n
            self.generic_visit(fn)
            if fn.body and isinstance(fn.body[-1], ast.While):
                w = fn.body[-1]
                if isinstance(w.test, ast.Constant) and w.test.value in (True, 1) and not w.orelse and len(w.body) >= 2:
                    first = w.body[0]
                    if isinstance(first, ast.If) and not first.orelse and len(first.body) == 1 and isinstance(first.body[0], ast.Return) \
                            and (first.body[0].value is None or (isinstance(first.body[0].value, ast.Constant) and first.body[0].value.value is None)) \
                            and not any(isinstance(x, ast.Return) and x.value is not None and not (isinstance(x.value, ast.Constant) and x.value.value is None)
                                        for x in ast.walk(fn) if not isinstance(x, (ast.FunctionDef, ast.Lambda)) or x is fn):
                        c = first.test
                        neg = c.operand if isinstance(c, ast.UnaryOp) and isinstance(c.op, ast.Not) else ast.UnaryOp(op=ast.Not(), operand=c)
                        n += 1
                        fn.body[-1] = ast.copy_location(ast.While(test=neg, body=w.body[1:], orelse=[]), w)
            return fn
    for m in modules.values():
        m.tree = ast.fix_missing_locations(R().visit(T().visit(m.tree)))
    return [('<package>', [], '%d `while True: if c: break` loops written with their guard' % n)] if n else []


# ----------------------------------------------------------------------------------------------- for _ in iter(f, sentinel)

def canonical_iter_sentinel(modules):
    """`for _ in iter(f, S): BODY` (target not used, no else) calls f() before every pass and stops when the answer equals S: `while f() != S: BODY`."""
    n = 0

    class T(ast.NodeTransformer):
        def visit_For(self, st):
            nonlocal n
            self.generic_visit(st)
            it = st.iter
            if isinstance(it, ast.Call) and isinstance(it.func, ast.Name) and it.func.id == 'iter' and len(it.args) == 2 and not it.keywords and isinstance(it.args[1], ast.Constant) \
                    and isinstance(st.target, ast.Name) and not st.orelse \
                    and not any(isinstance(x, ast.Name) and x.id == st.target.id for b in st.body for x in ast.walk(b)):
                n += 1
                test = ast.Compare(left=ast.Call(func=it.args[0], args=[], keywords=[]), ops=[ast.NotEq()], comparators=[it.args[1]])
                return ast.copy_location(ast.While(test=test, body=st.body, orelse=[]), st)
            return st
    for m in modules.values():
        m.tree = ast.fix_missing_locations(T().visit(m.tree))
    return [('<package>', [], '%d `for _ in iter(f, sentinel)` loops written as while loops' % n)] if n else []


def simplify_bool_comparisons(modules):
    """`B != False`, `B is not False`, `B == True`, `B is True` -> B and `B == False`, `B is False`, `B != True` -> not B, where B is itself a comparison, a boolean
    operation or a negation (its value is a bool, so the outer comparison adds nothing)"""
    n = 0

    def boolean(e):
        return isinstance(e, (ast.Compare, ast.BoolOp)) and not (isinstance(e, ast.BoolOp)) or (isinstance(e, ast.UnaryOp) and isinstance(e.op, ast.Not)) or \
            (isinstance(e, ast.BoolOp) and all(boolean(v) for v in e.values))

    class T(ast.NodeTransformer):
        def visit_Compare(self, c):
            nonlocal n
            self.generic_visit(c)
            if len(c.ops) == 1 and isinstance(c.comparators[0], ast.Constant) and isinstance(c.comparators[0].value, bool) and boolean(c.left) \
                    and isinstance(c.ops[0], (ast.Eq, ast.NotEq, ast.Is, ast.IsNot)):
                same = isinstance(c.ops[0], (ast.Eq, ast.Is)) == c.comparators[0].value
                n += 1
                return c.left if same else ast.copy_location(ast.UnaryOp(op=ast.Not(), operand=c.left), c)
            return c
    for m in modules.values():
        m.tree = ast.fix_missing_locations(T().visit(m.tree))
    return n


# ----------------------------------------------------------------------------------------------- i = 0; while i < len(L): ... L[i] ...; i += 1

def canonical_index_loops(modules):
    """the counting loop over a local list
           i = 0
           while i < len(L):  BODY (reads L[i], never i otherwise);  i += 1
       where BODY neither rebinds i or L nor mutates L and has no continue, is `for x in L: BODY[L[i] := x]`."""
    n = 0
    MUT = {'append', 'extend', 'insert', 'pop', 'remove', 'clear', 'sort', 'reverse', 'popleft', 'appendleft', 'rotate'}

    def rewrite(stmts):
        nonlocal n
        out = []
        k = 0
        while k < len(stmts):
            st = stmts[k]
            for fld in ('body', 'orelse', 'finalbody'):
                sub = getattr(st, fld, None)
                if isinstance(sub, list) and sub and isinstance(sub[0], ast.stmt) and not isinstance(st, (ast.FunctionDef, ast.ClassDef)):
                    setattr(st, fld, rewrite(sub))
            if isinstance(st, ast.Try):
                for hd in st.handlers:
                    hd.body = rewrite(hd.body)
            nxt = stmts[k + 1] if k + 1 < len(stmts) else None
            done = False
            if isinstance(st, ast.Assign) and len(st.targets) == 1 and isinstance(st.targets[0], ast.Name) and isinstance(st.value, ast.Constant) and st.value.value == 0 \
                    and isinstance(nxt, ast.While) and not nxt.orelse and len(nxt.body) >= 2:
                i = st.targets[0].id
                t = nxt.test
                if isinstance(t, ast.Compare) and len(t.ops) == 1 and isinstance(t.ops[0], ast.Lt) and isinstance(t.left, ast.Name) and t.left.id == i \
                        and isinstance(t.comparators[0], ast.Call) and isinstance(t.comparators[0].func, ast.Name) and t.comparators[0].func.id == 'len' \
                        and len(t.comparators[0].args) == 1 and isinstance(t.comparators[0].args[0], ast.Name):
                    L = t.comparators[0].args[0].id
                    last = nxt.body[-1]
                    body = nxt.body[:-1]
                    inc = isinstance(last, ast.AugAssign) and isinstance(last.target, ast.Name) and last.target.id == i and isinstance(last.op, ast.Add) \
                        and isinstance(last.value, ast.Constant) and last.value.value == 1
                    nodes = [x for b in body for x in ast.walk(b)]
                    reads_i = [x for x in nodes if isinstance(x, ast.Name) and x.id == i]
                    subs = [x for x in nodes if isinstance(x, ast.Subscript) and isinstance(x.value, ast.Name) and x.value.id == L and isinstance(x.slice, ast.Name) and x.slice.id == i
                            and isinstance(x.ctx, ast.Load)]
                    ok = inc and len(reads_i) == len(subs) and subs \
                        and not any(isinstance(x, ast.Name) and x.id in (i, L) and isinstance(x.ctx, (ast.Store, ast.Del)) for x in nodes) \
                        and not any(isinstance(x, (ast.Continue, ast.FunctionDef, ast.Lambda)) for x in nodes) \
                        and not any(isinstance(x, ast.Call) and isinstance(x.func, ast.Attribute) and x.func.attr in MUT and isinstance(x.func.value, ast.Name) and x.func.value.id == L for x in nodes) \
                        and not any(isinstance(x, ast.Name) and x.id == i for s2 in stmts[k + 2:] for x in ast.walk(s2))
                    if ok:
                        var = '%s_item' % L

                        class S(ast.NodeTransformer):
                            def visit_Subscript(self, x):
                                if any(x is y for y in subs):
                                    return ast.copy_location(ast.Name(id=var, ctx=ast.Load()), x)
                                return self.generic_visit(x)
                        new_body = [S().visit(b) for b in body]
                        out.append(ast.copy_location(ast.For(target=ast.Name(id=var, ctx=ast.Store()), iter=ast.Name(id=L, ctx=ast.Load()), body=new_body, orelse=[]), nxt))
                        n += 1
                        k += 2
                        done = True
            # for i in range(len(L)): BODY (reads L[i] only)
            if not done and isinstance(st, ast.For) and isinstance(st.target, ast.Name) and not st.orelse and isinstance(st.iter, ast.Call) and isinstance(st.iter.func, ast.Name) \
                    and st.iter.func.id == 'range' and len(st.iter.args) == 1 and isinstance(st.iter.args[0], ast.Call) and isinstance(st.iter.args[0].func, ast.Name) \
                    and st.iter.args[0].func.id == 'len' and len(st.iter.args[0].args) == 1 and isinstance(st.iter.args[0].args[0], ast.Name):
                i, L = st.target.id, st.iter.args[0].args[0].id
                nodes = [x for b in st.body for x in ast.walk(b)]
                reads_i = [x for x in nodes if isinstance(x, ast.Name) and x.id == i]
                subs = [x for x in nodes if isinstance(x, ast.Subscript) and isinstance(x.value, ast.Name) and x.value.id == L and isinstance(x.slice, ast.Name) and x.slice.id == i
                        and isinstance(x.ctx, ast.Load)]
                ok = subs and len(reads_i) == len(subs) \
                    and not any(isinstance(x, ast.Name) and x.id in (i, L) and isinstance(x.ctx, (ast.Store, ast.Del)) for x in nodes) \
                    and not any(isinstance(x, (ast.FunctionDef, ast.Lambda)) for x in nodes) \
                    and not any(isinstance(x, ast.Call) and isinstance(x.func, ast.Attribute) and x.func.attr in MUT and isinstance(x.func.value, ast.Name) and x.func.value.id == L for x in nodes) \
                    and not any(isinstance(x, ast.Name) and x.id == i for s2 in stmts[k + 1:] for x in ast.walk(s2))
                if ok:
                    var = '%s_item' % L

                    class S2(ast.NodeTransformer):
                        def visit_Subscript(self, x):
                            if any(x is y for y in subs):
                                return ast.copy_location(ast.Name(id=var, ctx=ast.Load()), x)
                            return self.generic_visit(x)
                    st.body = [S2().visit(b) for b in st.body]
                    st.target = ast.Name(id=var, ctx=ast.Store())
                    st.iter = ast.Name(id=L, ctx=ast.Load())
                    n += 1
            if not done:
                out.append(st)
                k += 1
        return out
    for m in modules.values():
        for fn in [x for x in ast.walk(m.tree) if isinstance(x, ast.FunctionDef)]:
            fn.body = rewrite(fn.body)
        ast.fix_missing_locations(m.tree)
    return [('<package>', [], '%d counting loops over a local list written as for loops' % n)] if n else []


# ----------------------------------------------------------------------------------------------- threading of boolean result locals

def thread_boolean_results(modules):
    """    if C: r = False            if C: X
           else: S; r = True    =>    else: S; Y
           if r: Y else: X
       A local that every leaf of an if/elif/else assigns a boolean literal as its last statement, tested by the very next statement and used nowhere else, only
       carries "which leaf was taken" to that test: the test's branches are moved into the leaves.  (The shape inlined boolean helpers leave behind.)"""
    n = 0

    def leaves_assign(stmts, r):
        """list of (statement list, bool) for every leaf, or None"""
        if not stmts:
            return None
        last = stmts[-1]
        if isinstance(last, ast.Assign) and len(last.targets) == 1 and isinstance(last.targets[0], ast.Name) and last.targets[0].id == r \
                and isinstance(last.value, ast.Constant) and isinstance(last.value.value, bool):
            if any(isinstance(x, ast.Name) and x.id == r for b in stmts[:-1] for x in ast.walk(b)):
                return None
            return [(stmts, last.value.value)]
        if isinstance(last, ast.If) and last.orelse:
            if any(isinstance(x, ast.Name) and x.id == r for b in stmts[:-1] for x in ast.walk(b)) or any(isinstance(x, ast.Name) and x.id == r for x in ast.walk(last.test)):
                return None
            a, b = leaves_assign(last.body, r), leaves_assign(last.orelse, r)
            if a is None or b is None:
                return None
            return a + b
        return None

    def rewrite(stmts, fn):
        nonlocal n
        for st in stmts:
            for fld in ('body', 'orelse', 'finalbody'):
                sub = getattr(st, fld, None)
                if isinstance(sub, list) and sub and isinstance(sub[0], ast.stmt) and not isinstance(st, (ast.FunctionDef, ast.ClassDef)):
                    setattr(st, fld, rewrite(sub, fn))
            if isinstance(st, ast.Try):
                for hd in st.handlers:
                    hd.body = rewrite(hd.body, fn)
        out = []
        k = 0
        while k < len(stmts):
            st = stmts[k]
            nxt = stmts[k + 1] if k + 1 < len(stmts) else None
            done = False
            if isinstance(st, ast.If) and st.orelse and isinstance(nxt, ast.If):
                t = nxt.test
                neg = False
                while isinstance(t, ast.UnaryOp) and isinstance(t.op, ast.Not):
                    t = t.operand
                    neg = not neg
                if isinstance(t, ast.Name):
                    r = t.id
                    uses = sum(1 for x in ast.walk(fn) if isinstance(x, ast.Name) and x.id == r)
                    lv = leaves_assign([st], r)
                    if lv is not None and uses == len(lv) + 1:
                        for leaf, val in lv:
                            branch = nxt.body if (val != neg) else nxt.orelse
                            leaf.pop()
                            leaf.extend(copy.deepcopy(b) for b in branch)
                            if not leaf:
                                leaf.append(ast.copy_location(ast.Pass(), nxt))
                        out.append(st)
                        n += 1
                        k += 2
                        done = True
            if not done:
                out.append(st)
                k += 1
        return out
    for m in modules.values():
        for fn in [x for x in ast.walk(m.tree) if isinstance(x, ast.FunctionDef)]:
            fn.body = rewrite(fn.body, fn)
        ast.fix_missing_locations(m.tree)
    return [('<package>', [], '%d boolean result locals threaded into the branches that set them' % n)] if n else []


# ----------------------------------------------------------------------------------------------- local aliases of attribute chains

def _chain(e):
    """('self', 'a', 'b') for the attribute chain self.a.b, or None"""
    parts = []
    while isinstance(e, ast.Attribute):
        parts.append(e.attr)
        e = e.value
    if isinstance(e, ast.Name):
        return tuple([e.id] + parts[::-1])
    return None


def propagate_attribute_aliases(modules):
    """`q = self.queue` (also as one element of a tuple assignment), bound exactly once, at the top level of the function body before any use, where the
    function never assigns to self.queue or a prefix of it and never rebinds `self`: every later `q` is `self.queue`.  The alias is written out and the
    binding dropped, so that rules about `self.queue.append(..)` see the same calls however the code abbreviates them.  (An alias of an attribute that the
    function itself re-assigns is left alone: it keeps the *old* object, which is not the same thing.)"""
    log = []
    # attribute names that some function other than a constructor (re)binds: an alias of such an attribute taken before a call is NOT the attribute after
    # the call (whoever runs in between may have replaced the object) - these are never written out
    rebound = set()
    for m in modules.values():
        for fn in [n for n in ast.walk(m.tree) if isinstance(n, ast.FunctionDef)]:
            if fn.name == '__init__':
                continue
            for n in ast.walk(fn):
                if isinstance(n, ast.Attribute) and isinstance(n.ctx, (ast.Store, ast.Del)):
                    rebound.add(n.attr)
                elif isinstance(n, ast.Call) and isinstance(n.func, ast.Name) and n.func.id in ('setattr', 'delattr') and len(n.args) >= 2:
                    rebound.add(n.args[1].value if isinstance(n.args[1], ast.Constant) else '*')
    for m in modules.values():
        for fn in [n for n in ast.walk(m.tree) if isinstance(n, ast.FunctionDef)]:
            params = {a.arg for a in fn.args.posonlyargs + fn.args.args + fn.args.kwonlyargs}
            if fn.args.vararg:
                params.add(fn.args.vararg.arg)
            if fn.args.kwarg:
                params.add(fn.args.kwarg.arg)
            own = list(_shallow_fn(fn))
            stores = {}
            for n in own:
                if isinstance(n, ast.Name) and isinstance(n.ctx, (ast.Store, ast.Del)):
                    stores[n.id] = stores.get(n.id, 0) + 1
            # attribute chains assigned anywhere in the function (including nested functions, which may run in between)
            written = set()
            for n in ast.walk(fn):
                if isinstance(n, ast.Attribute) and isinstance(n.ctx, (ast.Store, ast.Del)):
                    c = _chain(n)
                    if c:
                        written.add(c)
            # every statement list of the function (its body and the blocks nested in it, not those of nested functions)
            blocks = []

            def collect(stmts):
                blocks.append(stmts)
                for st in stmts:
                    if isinstance(st, (ast.FunctionDef, ast.AsyncFunctionDef, ast.ClassDef)):
                        continue
                    for fld in ('body', 'orelse', 'finalbody'):
                        sub = getattr(st, fld, None)
                        if isinstance(sub, list) and sub and all(isinstance(x, ast.stmt) for x in sub):
                            collect(sub)
                    if isinstance(st, ast.Try):
                        for hd in st.handlers:
                            collect(hd.body)
            collect(fn.body)
            all_names = [n for n in ast.walk(fn) if isinstance(n, ast.Name)]
            cands = {}
            for blk in blocks:
                for i, st in enumerate(blk):
                    if not isinstance(st, ast.Assign) or len(st.targets) != 1:
                        continue
                    t, v = st.targets[0], st.value
                    pairs = []
                    if isinstance(t, ast.Name):
                        pairs = [(t, v)]
                    elif isinstance(t, ast.Tuple) and isinstance(v, ast.Tuple) and len(t.elts) == len(v.elts) and all(isinstance(x, ast.Name) for x in t.elts):
                        pairs = list(zip(t.elts, v.elts))
                    for tn, vv in pairs:
                        c = _chain(vv)
                        if not (isinstance(vv, ast.Attribute) and c and c[0] in params and len(c) >= 2):
                            continue
                        if stores.get(tn.id, 0) != 1 or tn.id in params or stores.get(c[0], 0):
                            continue
                        if any(w[:len(c)] == c or c[:len(w)] == w for w in written):
                            continue
                        if any(a_ in rebound for a_ in c[1:]):
                            # ... except when nothing can run between the binding and the single use: the very next statement calls the alias
                            # (`h = self.state.fun` / `r = h(self, e)`: the callee expression is evaluated first)
                            nxt = blk[i + 1] if i + 1 < len(blk) else None
                            val_ = getattr(nxt, 'value', None) if isinstance(nxt, (ast.Assign, ast.Expr, ast.Return)) else None
                            uses_ = [n for n in all_names if n.id == tn.id and isinstance(n.ctx, ast.Load)]
                            if not (isinstance(val_, ast.Call) and isinstance(val_.func, ast.Name) and val_.func.id == tn.id and len(uses_) == 1 and uses_[0] is val_.func):
                                continue
                        # every read of the name lies in the statements that follow the binding in its own block (so the binding has run, exactly once... per
                        # execution of that block: inside a loop the alias is re-bound to the same chain, which is still the same expression)
                        later = {id(n) for s2 in blk[i + 1:] for n in ast.walk(s2)}
                        reads = [n for n in all_names if n.id == tn.id and isinstance(n.ctx, ast.Load)]
                        nested_store = [n for d in ast.walk(fn) if d is not fn and isinstance(d, (ast.FunctionDef, ast.Lambda)) for n in ast.walk(d)
                                        if (isinstance(n, ast.Name) and n.id == tn.id and isinstance(n.ctx, ast.Store)) or (isinstance(n, ast.arg) and n.arg == tn.id)]
                        if nested_store or not all(id(n) in later for n in reads):
                            continue
                        cands[tn.id] = (st, vv)
            if not cands:
                continue

            class Sub(ast.NodeTransformer):
                def visit_Name(self, n):
                    if isinstance(n.ctx, ast.Load) and n.id in cands:
                        return ast.copy_location(copy.deepcopy(cands[n.id][1]), n)
                    return n

            def rebuild(stmts):
                new_body = []
                for st in stmts:
                    hit = [k for k, (s0, _v) in cands.items() if s0 is st]
                    if hit:
                        t, v = st.targets[0], st.value
                        if isinstance(t, ast.Name):
                            continue
                        keep = [(a, b) for a, b in zip(t.elts, v.elts) if a.id not in cands]
                        if not keep:
                            continue
                        if len(keep) == 1:
                            st2 = ast.Assign(targets=[keep[0][0]], value=Sub().visit(keep[0][1]))
                        else:
                            st2 = ast.Assign(targets=[ast.Tuple(elts=[a for a, _b in keep], ctx=ast.Store())], value=ast.Tuple(elts=[Sub().visit(b) for _a, b in keep], ctx=ast.Load()))
                        ast.copy_location(st2, st)
                        new_body.append(st2)
                        continue
                    if not isinstance(st, (ast.FunctionDef, ast.AsyncFunctionDef, ast.ClassDef)):
                        for fld in ('body', 'orelse', 'finalbody'):
                            sub = getattr(st, fld, None)
                            if isinstance(sub, list) and sub and all(isinstance(x, ast.stmt) for x in sub):
                                setattr(st, fld, rebuild(sub) or [ast.Pass()])
                        if isinstance(st, ast.Try):
                            for hd in st.handlers:
                                hd.body = rebuild(hd.body) or [ast.Pass()]
                    new_body.append(st)
                return new_body
            new_body = rebuild(fn.body)
            new_body = [Sub().visit(st) for st in new_body]
            fn.body = new_body or [ast.Pass()]
            ast.fix_missing_locations(fn)
            log.append(('%s.%s' % (m.name, fn.name), [], 'local aliases written out: %s' % ', '.join('%s = %s' % (k, ast.unparse(v)) for k, (_s, v) in sorted(cands.items()))))
    return log


def _shallow_fn(fn):
    """the nodes of fn's own body (not of functions or lambdas nested in it)"""
    todo = list(fn.body)
    while todo:
        n = todo.pop()
        yield n
        for ch in ast.iter_child_nodes(n):
            if isinstance(ch, (ast.FunctionDef, ast.AsyncFunctionDef, ast.Lambda, ast.ClassDef)):
                continue
            todo.append(ch)


# ----------------------------------------------------------------------------------------------- loops over a literal sequence

def unroll_literal_loops(modules, max_items=4):
    """`for q in (self.a, self.b): BODY` over a literal tuple/list of call-free expressions, where BODY neither rebinds q nor leaves the loop
    (break/continue/else) and q is not read after the loop: BODY[q := self.a]; BODY[q := self.b].  "Do the same for each of these two queues" then
    reads like the code that names them one after the other."""
    log = []

    def pure_item(e):
        return not any(isinstance(n, (ast.Call, ast.Await, ast.Yield, ast.YieldFrom, ast.NamedExpr, ast.Lambda)) for n in ast.walk(e))

    for m in modules.values():
        for fn in [n for n in ast.walk(m.tree) if isinstance(n, ast.FunctionDef)]:
            changed = []

            def rewrite(stmts, following):
                out = []
                for i, st in enumerate(stmts):
                    rest = stmts[i + 1:] + following
                    for fld in ('body', 'orelse', 'finalbody'):
                        sub = getattr(st, fld, None)
                        if isinstance(sub, list) and sub and not isinstance(st, (ast.FunctionDef, ast.ClassDef)):
                            # statements after a loop body may run again: a name read anywhere later (or in the loop itself) counts as "read after"
                            setattr(st, fld, rewrite(sub, rest + ([st] if isinstance(st, (ast.For, ast.While)) else [])))
                    if isinstance(st, ast.Try):
                        for hd in st.handlers:
                            hd.body = rewrite(hd.body, rest)
                    tnames = None
                    if isinstance(st, ast.For) and isinstance(st.target, ast.Name):
                        tnames = [st.target.id]
                    elif isinstance(st, ast.For) and isinstance(st.target, ast.Tuple) and all(isinstance(t, ast.Name) for t in st.target.elts):
                        tnames = [t.id for t in st.target.elts]
                    if tnames and isinstance(st.iter, (ast.Tuple, ast.List)) and not st.orelse \
                            and 1 <= len(st.iter.elts) <= max_items and all(pure_item(e) for e in st.iter.elts) \
                            and (len(tnames) == 1 and isinstance(st.target, ast.Name) or
                                 all(isinstance(e, (ast.Tuple, ast.List)) and len(e.elts) == len(tnames) for e in st.iter.elts)):
                        body_nodes = [n for b in st.body for n in ast.walk(b)]
                        rebinds = any(isinstance(n, ast.Name) and n.id in tnames and isinstance(n.ctx, (ast.Store, ast.Del)) for n in body_nodes)
                        leaves = any(isinstance(n, (ast.Break, ast.Continue)) for n in body_nodes)       # (conservative: also those of inner loops)
                        closure = any(isinstance(n, (ast.FunctionDef, ast.Lambda)) for n in body_nodes)
                        read_after = any(isinstance(n, ast.Name) and n.id in tnames for s2 in rest if s2 is not st for n in ast.walk(s2))
                        if not (rebinds or leaves or closure or read_after):
                            for e in st.iter.elts:
                                vals = {tnames[0]: e} if isinstance(st.target, ast.Name) else dict(zip(tnames, e.elts))

                                class Sub(ast.NodeTransformer):
                                    def visit_Name(self, n, vals=vals):
                                        if n.id in vals and isinstance(n.ctx, ast.Load):
                                            return ast.copy_location(copy.deepcopy(vals[n.id]), n)
                                        return n
                                for b in st.body:
                                    nb = Sub().visit(copy.deepcopy(b))
                                    out.append(nb)
                            changed.append('for %s in %s' % (', '.join(tnames), ast.unparse(st.iter)))
                            continue
                    out.append(st)
                return out
            fn.body = rewrite(fn.body, [])
            if changed:
                ast.fix_missing_locations(fn)
                log.append(('%s.%s' % (m.name, fn.name), [], 'loop over a literal sequence unrolled: %s' % '; '.join(changed)))
    return log


# ----------------------------------------------------------------------------------------------- tail delegation to a fresh function

def inline_tail_delegations(modules, baseline=None):
    """`def deco(fn): return _fresh(fn, "CONST")` - a function whose whole body hands its own parameters and constants to a fresh module-level function (one that
    may define closures, which the statement inliner leaves alone) - becomes the body of that function with the arguments written in.  The fresh function is
    removed when nothing else refers to it."""
    baseline = baseline if baseline is not None else baseline_names()
    log = []
    for m in modules.values():
        fresh = {}
        for st in m.tree.body:
            if isinstance(st, ast.FunctionDef) and ('%s.%s' % (m.name, st.name)) not in baseline and not st.decorator_list:
                a = st.args
                if a.vararg or a.kwarg or a.kwonlyargs or a.defaults or a.posonlyargs:
                    continue
                params = [x.arg for x in a.args]
                stored = {n.id for n in ast.walk(st) if isinstance(n, ast.Name) and isinstance(n.ctx, (ast.Store, ast.Del))}
                inner_params = {x.arg for d in ast.walk(st) if d is not st and isinstance(d, (ast.FunctionDef, ast.Lambda)) for x in d.args.args + d.args.kwonlyargs}
                if set(params) & (stored | inner_params):
                    continue
                fresh[st.name] = (st, params)
        if not fresh:
            continue
        uses = {k: 0 for k in fresh}
        done = {k: 0 for k in fresh}
        for n in ast.walk(m.tree):
            if isinstance(n, ast.Name) and n.id in fresh and isinstance(n.ctx, ast.Load):
                uses[n.id] += 1
        for caller in [n for n in ast.walk(m.tree) if isinstance(n, ast.FunctionDef)]:
            body = list(caller.body)
            if body and isinstance(body[0], ast.Expr) and isinstance(body[0].value, ast.Constant) and isinstance(body[0].value.value, str):
                body = body[1:]
            if len(body) != 1 or not isinstance(body[0], ast.Return) or not isinstance(body[0].value, ast.Call):
                continue
            c = body[0].value
            if not (isinstance(c.func, ast.Name) and c.func.id in fresh) or c.keywords or caller.name == c.func.id:
                continue
            fdef, params = fresh[c.func.id]
            cparams = {x.arg for x in caller.args.posonlyargs + caller.args.args + caller.args.kwonlyargs}
            if len(c.args) != len(params) or not all(isinstance(x, ast.Constant) or (isinstance(x, ast.Name) and x.id in cparams) for x in c.args):
                continue
            mapping, ren = {}, {}
            for p, x in zip(params, c.args):
                if isinstance(x, ast.Constant):
                    mapping[p] = x
                elif x.id != p:
                    ren[p] = x.id
            new_body = [Rename(ren, mapping).visit(copy.deepcopy(x)) for x in fdef.body]
            if new_body and isinstance(new_body[0], ast.Expr) and isinstance(new_body[0].value, ast.Constant) and isinstance(new_body[0].value.value, str):
                new_body = new_body[1:]
            caller.body = new_body or [ast.Pass()]
            ast.fix_missing_locations(caller)
            done[c.func.id] += 1
        for k, (fdef, params) in fresh.items():
            if done[k] and done[k] == uses[k]:
                m.tree.body.remove(fdef)
                log.append(('%s.%s' % (m.name, k), ['<%d callers>' % done[k]], 'tail delegation written out'))
            elif done[k]:
                log.append(('%s.%s' % (m.name, k), [], 'tail delegation written out in %d of %d uses' % (done[k], uses[k])))
    return log


def unwrap_quiet_try(modules):
    """`try: <plain name/attribute loads bound to locals> except E: raise X(..)` is exception *translation* for a missing field of an object that was never set up
    (`t = self.state.fun` before start_at): the handler has no effect but its raise, and the body has none when it fails.  The try is replaced by its body, so that the
    loads it guards are seen where they stand (aliases written out, def-use chains not split by a handler edge)."""
    log = []

    def quiet(st):
        return isinstance(st, (ast.Assign, ast.Pass)) and all(isinstance(x, (ast.Assign, ast.Name, ast.Attribute, ast.Constant, ast.expr_context)) for x in ast.walk(st)) \
            and all(isinstance(t, ast.Name) for t in getattr(st, 'targets', []))

    class T(ast.NodeTransformer):
        def __init__(self):
            self.n = 0

        def generic_block(self, stmts):
            out = []
            for st in stmts:
                st = self.visit(st)
                if isinstance(st, ast.Try) and not st.orelse and not st.finalbody and st.handlers and all(quiet(b) for b in st.body) \
                        and all(len(h.body) == 1 and isinstance(h.body[0], ast.Raise) for h in st.handlers):
                    out.extend(st.body)
                    self.n += 1
                else:
                    out.append(st)
            return out

        def generic_visit(self, node):
            super().generic_visit(node)
            for fld in ('body', 'orelse', 'finalbody'):
                sub = getattr(node, fld, None)
                if isinstance(sub, list) and sub and all(isinstance(x, ast.stmt) for x in sub):
                    setattr(node, fld, self.generic_block(sub))
            return node
    for m in modules.values():
        t = T()
        t.visit(m.tree)
        if t.n:
            ast.fix_missing_locations(m.tree)
            log.append((m.name, [], '%d exception-translating try statement(s) around plain attribute loads replaced by their body' % t.n))
    return log


def canonical_assert(modules):
    """`if C: raise AssertionError(..)` (no else) is the statement `assert not C`: written that way so that rules about "fails when .." see one form"""
    NEG = {ast.Is: ast.IsNot, ast.IsNot: ast.Is, ast.Eq: ast.NotEq, ast.NotEq: ast.Eq, ast.In: ast.NotIn, ast.NotIn: ast.In,
           ast.Lt: ast.GtE, ast.GtE: ast.Lt, ast.Gt: ast.LtE, ast.LtE: ast.Gt}

    def negate(t):
        if isinstance(t, ast.UnaryOp) and isinstance(t.op, ast.Not):
            return t.operand
        if isinstance(t, ast.Compare) and len(t.ops) == 1 and type(t.ops[0]) in NEG:
            return ast.Compare(left=t.left, ops=[NEG[type(t.ops[0])]()], comparators=t.comparators)
        return ast.UnaryOp(op=ast.Not(), operand=t)
    log = []
    for m in modules.values():
        n = 0
        for node in ast.walk(m.tree):
            for fld in ('body', 'orelse', 'finalbody'):
                sub = getattr(node, fld, None)
                if not (isinstance(sub, list) and sub and all(isinstance(x, ast.stmt) for x in sub)):
                    continue
                for i, st in enumerate(sub):
                    if isinstance(st, ast.If) and not st.orelse and len(st.body) == 1 and isinstance(st.body[0], ast.Raise) and st.body[0].exc is not None \
                            and st.body[0].cause is None:
                        ex = st.body[0].exc
                        nm = ex.func if isinstance(ex, ast.Call) else ex
                        if isinstance(nm, ast.Name) and nm.id == 'AssertionError':
                            msg = ex.args[0] if isinstance(ex, ast.Call) and len(ex.args) == 1 and not ex.keywords else None
                            if isinstance(ex, ast.Call) and (len(ex.args) > 1 or ex.keywords):
                                continue
                            sub[i] = ast.copy_location(ast.Assert(test=negate(st.test), msg=msg), st)
                            n += 1
        if n:
            ast.fix_missing_locations(m.tree)
            log.append((m.name, [], '%d `if C: raise AssertionError` written as assert' % n))
    return log


def canonical_get_loops(modules):
    """`for x in D.get(K, ()): B` (empty literal default, no else; D and K plain names/attribute chains) visits the elements of D[K] when K is a key and nothing
    otherwise: written as `if K in D.keys(): for x in D[K]: B`, the form the package itself uses, so that rules about "the loop over registry[key]" see one shape"""
    def plain(e):
        while isinstance(e, ast.Attribute):
            e = e.value
        return isinstance(e, ast.Name)

    def empty(d):
        return (isinstance(d, (ast.Tuple, ast.List)) and not d.elts) or (isinstance(d, ast.Call) and isinstance(d.func, ast.Name) and d.func.id in ('tuple', 'list', 'frozenset')
                                                                     and not d.args and not d.keywords)
    log = []
    for m in modules.values():
        n = 0
        for node in ast.walk(m.tree):
            for fld in ('body', 'orelse', 'finalbody'):
                sub = getattr(node, fld, None)
                if not (isinstance(sub, list) and sub and all(isinstance(x, ast.stmt) for x in sub)):
                    continue
                # `s = tuple(D.get(K, ()))` / `for x in s: B` (s used nowhere else): the loop over the expression itself
                for i in range(len(sub) - 1):
                    a_, b_ = sub[i], sub[i + 1]
                    if isinstance(a_, ast.Assign) and len(a_.targets) == 1 and isinstance(a_.targets[0], ast.Name) and isinstance(b_, ast.For) \
                            and isinstance(b_.iter, ast.Name) and b_.iter.id == a_.targets[0].id \
                            and any(isinstance(c_, ast.Call) and isinstance(c_.func, ast.Attribute) and c_.func.attr == 'get' for c_ in ast.walk(a_.value)) \
                            and sum(1 for x_ in ast.walk(node) if isinstance(x_, ast.Name) and x_.id == a_.targets[0].id) == 2:
                        b_.iter = a_.value
                        sub[i] = ast.copy_location(ast.Pass(), a_)
                # `r = D.get(K)` / `if r is not None: for x in r: B`  (r used nowhere else): the same loop
                for i in range(len(sub) - 1):
                    a_, b_ = sub[i], sub[i + 1]
                    if isinstance(a_, ast.Assign) and len(a_.targets) == 1 and isinstance(a_.targets[0], ast.Name) and isinstance(a_.value, ast.Call) \
                            and isinstance(a_.value.func, ast.Attribute) and a_.value.func.attr == 'get' and len(a_.value.args) in (1, 2) and not a_.value.keywords \
                            and plain(a_.value.func.value) and plain(a_.value.args[0]) \
                            and (len(a_.value.args) == 1 or (isinstance(a_.value.args[1], ast.Constant) and a_.value.args[1].value is None)) \
                            and isinstance(b_, ast.If) and not b_.orelse and len(b_.body) == 1 and isinstance(b_.body[0], ast.For) and not b_.body[0].orelse \
                            and isinstance(b_.body[0].iter, ast.Name) and b_.body[0].iter.id == a_.targets[0].id:
                        rn = a_.targets[0].id
                        t_ = b_.test
                        is_present = (isinstance(t_, ast.Name) and t_.id == rn) or (isinstance(t_, ast.Compare) and len(t_.ops) == 1 and isinstance(t_.ops[0], ast.IsNot)
                                                                                 and isinstance(t_.left, ast.Name) and t_.left.id == rn and isinstance(t_.comparators[0], ast.Constant)
                                                                                 and t_.comparators[0].value is None)
                        uses = sum(1 for x_ in ast.walk(node) if isinstance(x_, ast.Name) and x_.id == rn)
                        if is_present and uses == 3:
                            loop = b_.body[0]
                            loop.iter = ast.Call(func=ast.Attribute(value=a_.value.func.value, attr='get', ctx=ast.Load()), args=[a_.value.args[0], ast.Tuple(elts=[], ctx=ast.Load())], keywords=[])
                            sub[i] = ast.copy_location(ast.Pass(), a_)
                            sub[i + 1] = loop
                for i, st in enumerate(sub):
                    if isinstance(st, ast.For) and isinstance(st.iter, ast.Call) and isinstance(st.iter.func, ast.Name) and st.iter.func.id in ('tuple', 'list') \
                            and len(st.iter.args) == 1 and not st.iter.keywords and isinstance(st.iter.args[0], ast.Call) and isinstance(st.iter.args[0].func, ast.Attribute) \
                            and st.iter.args[0].func.attr == 'get':
                        st.iter = st.iter.args[0]          # a snapshot of the looked-up list: the same elements in the same order
                    if isinstance(st, ast.For) and not st.orelse and isinstance(st.iter, ast.Call) and isinstance(st.iter.func, ast.Attribute) and st.iter.func.attr == 'get' \
                            and len(st.iter.args) == 2 and not st.iter.keywords and plain(st.iter.func.value) and plain(st.iter.args[0]) and empty(st.iter.args[1]):
                        d_, k_ = st.iter.func.value, st.iter.args[0]
                        st.iter = ast.Subscript(value=copy.deepcopy(d_), slice=copy.deepcopy(k_), ctx=ast.Load())
                        test = ast.Compare(left=copy.deepcopy(k_), ops=[ast.In()],
                                           comparators=[ast.Call(func=ast.Attribute(value=copy.deepcopy(d_), attr='keys', ctx=ast.Load()), args=[], keywords=[])])
                        sub[i] = ast.copy_location(ast.If(test=test, body=[st], orelse=[]), st)
                        n += 1
        if n:
            ast.fix_missing_locations(m.tree)
            log.append((m.name, [], '%d `for x in D.get(K, ())` written as `if K in D.keys(): for x in D[K]`' % n))
    return log


def strip_write_only_locals(modules):
    """a local that is bound only to fresh empty containers / constants and then only ever *written* (x.append(pure), x[k] = pure, x += pure) and never read - typically
    what is left of a record that fed a statistics attribute dropped by strip_fresh_write_only_state - is dead: its statements are removed.  Nothing escapes: the name is
    never loaded except as the receiver of those mutations, so no alias of the container exists."""
    MUT = {'append', 'extend', 'insert', 'update', 'setdefault', 'add', 'appendleft'}

    def fresh_container(v):
        return (isinstance(v, (ast.List, ast.Dict, ast.Set, ast.Tuple)) and not ast.dump(v).count('elts=[') > 1 and not getattr(v, 'elts', None) and not getattr(v, 'keys', None)) \
            or (isinstance(v, ast.Call) and isinstance(v.func, ast.Name) and v.func.id in ('list', 'dict', 'set', 'deque', 'Counter', 'OrderedDict') and not v.args and not v.keywords) \
            or (isinstance(v, ast.Constant) and isinstance(v.value, (int, float, str, type(None))))
    log = []
    for m in modules.values():
        for fn in [n for n in ast.walk(m.tree) if isinstance(n, (ast.FunctionDef, ast.AsyncFunctionDef))]:
            params = {a.arg for a in fn.args.posonlyargs + fn.args.args + fn.args.kwonlyargs} | ({fn.args.vararg.arg} if fn.args.vararg else set()) | \
                ({fn.args.kwarg.arg} if fn.args.kwarg else set())
            if any(isinstance(n, (ast.Global, ast.Nonlocal)) for n in ast.walk(fn)):
                continue
            own = list(_shallow_fn(fn))
            names = {n.id for n in own if isinstance(n, ast.Name) and isinstance(n.ctx, ast.Store)} - params
            # names touched by nested functions are left alone
            nested_names = {n.id for d in ast.walk(fn) if d is not fn and isinstance(d, (ast.FunctionDef, ast.AsyncFunctionDef, ast.Lambda, ast.ListComp, ast.GeneratorExp, ast.SetComp, ast.DictComp))
                            for n in ast.walk(d) if isinstance(n, ast.Name)}
            dead = set()
            for nm in sorted(names - nested_names):
                ok, harmless, seen_mut = True, set(), False
                for st in [x for x in own if isinstance(x, ast.stmt)]:
                    if isinstance(st, ast.Assign) and len(st.targets) == 1 and isinstance(st.targets[0], ast.Name) and st.targets[0].id == nm:
                        if not fresh_container(st.value):
                            ok = False
                        harmless.update(id(x) for x in ast.walk(st))
                    elif isinstance(st, ast.Expr) and isinstance(st.value, ast.Call) and isinstance(st.value.func, ast.Attribute) and st.value.func.attr in MUT \
                            and isinstance(st.value.func.value, ast.Name) and st.value.func.value.id == nm \
                            and all(_pure_expr(a) for a in st.value.args) and all(_pure_expr(k.value) for k in st.value.keywords) \
                            and not any(isinstance(x, ast.Name) and x.id == nm for a in list(st.value.args) + [k.value for k in st.value.keywords] for x in ast.walk(a)):
                        harmless.update(id(x) for x in ast.walk(st))
                        seen_mut = True
                if not ok or not seen_mut:
                    continue
                if all(id(n) in harmless for n in own if isinstance(n, ast.Name) and n.id == nm):
                    dead.add(nm)
            if not dead:
                continue

            def is_dead(st):
                if isinstance(st, ast.Assign) and len(st.targets) == 1 and isinstance(st.targets[0], ast.Name) and st.targets[0].id in dead:
                    return True
                return isinstance(st, ast.Expr) and isinstance(st.value, ast.Call) and isinstance(st.value.func, ast.Attribute) and isinstance(st.value.func.value, ast.Name) \
                    and st.value.func.value.id in dead

            def rebuild(stmts):
                out = []
                for st in stmts:
                    if is_dead(st):
                        continue
                    if not isinstance(st, (ast.FunctionDef, ast.AsyncFunctionDef, ast.ClassDef)):
                        for fld in ('body', 'orelse', 'finalbody'):
                            sub = getattr(st, fld, None)
                            if isinstance(sub, list) and sub and all(isinstance(x, ast.stmt) for x in sub):
                                setattr(st, fld, rebuild(sub) or ([ast.Pass()] if fld == 'body' else []))
                        for hd in getattr(st, 'handlers', []) or []:
                            hd.body = rebuild(hd.body) or [ast.Pass()]
                    out.append(st)
                return out
            fn.body = rebuild(fn.body) or [ast.Pass()]
            ast.fix_missing_locations(fn)
            log.append(('%s.%s' % (m.name, fn.name), [], 'write-only locals dropped: %s' % ', '.join(sorted(dead))))
    return log


def drop_effect_free_ifs(modules):
    """`if <pure test>: pass` (nothing but pass in either branch) does nothing: what is left when the statements a branch guarded were dropped as diagnostics or statistics"""
    log = []
    for m in modules.values():
        n = 0
        for _ in range(3):
            changed = False
            for node in ast.walk(m.tree):
                for fld in ('body', 'orelse', 'finalbody'):
                    sub = getattr(node, fld, None)
                    if not (isinstance(sub, list) and sub and all(isinstance(x, ast.stmt) for x in sub)):
                        continue
                    keep = []
                    for st in sub:
                        if isinstance(st, ast.If) and _pure_expr(st.test) and all(isinstance(x, ast.Pass) for x in st.body + st.orelse):
                            n += 1
                            changed = True
                            continue
                        keep.append(st)
                    if len(keep) != len(sub):
                        setattr(node, fld, keep or ([ast.Pass()] if fld == 'body' else []))
            if not changed:
                break
        if n:
            ast.fix_missing_locations(m.tree)
            log.append((m.name, [], '%d empty conditional(s) with an effect-free test dropped' % n))
    return log


def _settle_constant_locals(body, modules):
    """`x = None` / `if x is None: x = E` (adjacent, top level) is `x = E`; and a local bound exactly once at top level to a class constant of the package
    (`K.UPPER`, `self.__class__.UPPER`) is that constant wherever it is read"""
    out = []
    i = 0
    while i < len(body):
        st = body[i]
        nxt = body[i + 1] if i + 1 < len(body) else None
        if isinstance(st, ast.Assign) and len(st.targets) == 1 and isinstance(st.targets[0], ast.Name) and isinstance(st.value, ast.Constant) and st.value.value is None \
                and isinstance(nxt, ast.If) and not nxt.orelse and len(nxt.body) == 1 and isinstance(nxt.body[0], ast.Assign) and len(nxt.body[0].targets) == 1 \
                and isinstance(nxt.body[0].targets[0], ast.Name) and nxt.body[0].targets[0].id == st.targets[0].id \
                and isinstance(nxt.test, ast.Compare) and len(nxt.test.ops) == 1 and isinstance(nxt.test.ops[0], ast.Is) and isinstance(nxt.test.left, ast.Name) \
                and nxt.test.left.id == st.targets[0].id and isinstance(nxt.test.comparators[0], ast.Constant) and nxt.test.comparators[0].value is None:
            out.append(ast.copy_location(ast.Assign(targets=[st.targets[0]], value=nxt.body[0].value), st))
            i += 2
            continue
        out.append(st)
        i += 1
    classes = _class_table(modules)
    stores = {}
    for st in out:
        for n in ast.walk(st):
            if isinstance(n, ast.Name) and isinstance(n.ctx, (ast.Store, ast.Del)):
                stores[n.id] = stores.get(n.id, 0) + 1
    binds = {}
    for st in out:
        if isinstance(st, ast.Assign) and len(st.targets) == 1 and isinstance(st.targets[0], ast.Name) and stores.get(st.targets[0].id) == 1:
            v = st.value
            if isinstance(v, ast.Attribute) and v.attr.isupper() and ((isinstance(v.value, ast.Name) and v.value.id in classes) or ast.unparse(v.value) in ('self.__class__', 'type(self)')):
                binds[st.targets[0].id] = (st, v)
    nested_reads = {n.id for st in out for d in ast.walk(st) if isinstance(d, (ast.FunctionDef, ast.Lambda)) for n in ast.walk(d) if isinstance(n, ast.Name)}
    binds = {k: v for k, v in binds.items() if k not in nested_reads}
    if binds:
        class S(ast.NodeTransformer):
            def visit_Name(self, x):
                if isinstance(x.ctx, ast.Load) and x.id in binds:
                    return ast.copy_location(copy.deepcopy(binds[x.id][1]), x)
                return x

            def visit_FunctionDef(self, f):
                return f        # a closure may run later; leave it alone
        out = [S().visit(st) for st in out if not any(st is b[0] for b in binds.values())]
    return out


def fold_fresh_constant_attributes(modules):
    """an attribute the pinned tree does not have and that every store in the package sets to one and the same literal (typically None, after a new optional
    constructor argument was analysed at its default) holds that literal whenever it is read: reads are written as the literal and the tests on it fold away"""
    battrs = baseline_attributes()
    stores, tainted = {}, set()
    for m in modules.values():
        for n in ast.walk(m.tree):
            if isinstance(n, ast.Assign):
                for t in n.targets:
                    for x in ([t] if not isinstance(t, (ast.Tuple, ast.List)) else t.elts):
                        if isinstance(x, ast.Attribute):
                            if len(n.targets) == 1 and x is t:
                                stores.setdefault(x.attr, []).append(n.value)
                            else:
                                tainted.add(x.attr)
            elif isinstance(n, (ast.AugAssign, ast.AnnAssign)) and isinstance(n.target, ast.Attribute):
                tainted.add(n.target.attr)
            elif isinstance(n, ast.Call) and isinstance(n.func, ast.Name) and n.func.id in ('setattr', 'delattr') and len(n.args) >= 2:
                # (a metaclass installing descriptors with `setattr(cls, name, ..)` writes class attributes under user-declared names, not instance state)
                if isinstance(n.args[1], ast.Constant):
                    tainted.add(n.args[1].value)
                elif not (isinstance(n.args[0], ast.Name) and n.args[0].id == 'cls'):
                    tainted.add('*')
            elif isinstance(n, (ast.For, ast.With, ast.Delete)):
                for x in ast.walk(n.target if isinstance(n, ast.For) else ast.Module(body=[], type_ignores=[])):
                    if isinstance(x, ast.Attribute) and isinstance(x.ctx, (ast.Store, ast.Del)):
                        tainted.add(x.attr)
    consts = {}
    for a, vals in stores.items():
        if a in battrs or a in tainted or a.startswith('__'):
            continue
        # a store under a computed name (augment(**kwargs): setattr(self, key, value)) is the user's way to add *public* fields; a new private name is the package's own
        if '*' in tainted and not a.startswith('_'):
            continue
        if all(isinstance(v, ast.Constant) for v in vals) and len({repr(v.value) for v in vals}) == 1 and isinstance(vals[0].value, (type(None), bool, int, str)):
            consts[a] = vals[0]
    if not consts:
        return []
    log = []

    class R(ast.NodeTransformer):
        def __init__(self):
            self.n = 0

        def visit_Attribute(self, x):
            self.generic_visit(x)
            if isinstance(x.ctx, ast.Load) and x.attr in consts:
                self.n += 1
                return ast.copy_location(copy.deepcopy(consts[x.attr]), x)
            return x

        def visit_Call(self, c):
            self.generic_visit(c)
            if isinstance(c.func, ast.Name) and c.func.id == 'getattr' and len(c.args) in (2, 3) and isinstance(c.args[1], ast.Constant) and c.args[1].value in consts:
                k = consts[c.args[1].value]
                if len(c.args) == 2 or (isinstance(c.args[2], ast.Constant) and repr(c.args[2].value) == repr(k.value)):
                    self.n += 1
                    return ast.copy_location(copy.deepcopy(k), c)
            return c
    for m in modules.values():
        for fn in [n for n in ast.walk(m.tree) if isinstance(n, ast.FunctionDef)]:
            r = R()
            new_body = [r.visit(st) for st in fn.body]
            if r.n:
                fn.body = _settle_constant_locals(_fold(_fold_none_locals(new_body)), modules) or [ast.Pass()]
                ast.fix_missing_locations(fn)
                log.append(('%s.%s' % (m.name, fn.name), [], 'reads of new attributes that only ever hold one literal written as that literal: %s' % ', '.join(sorted(consts))))
    return log


def canonical_index_probe(modules):
    """`try: x = D.popleft()` (or D.pop() / D[0] / D[-1]) `except IndexError: H` with nothing else in the try is the test-then-take form written the other way
    round: `if len(D) != 0: x = D.popleft() else: H`.  (For another thread the one-step form is the stronger one; for the rules about *which* element is taken, and
    what happens when there is none, the two say the same.)"""
    def plain(e):
        while isinstance(e, ast.Attribute):
            e = e.value
        return isinstance(e, ast.Name)
    log = []
    for m in modules.values():
        n = 0
        for node in ast.walk(m.tree):
            for fld in ('body', 'orelse', 'finalbody'):
                sub = getattr(node, fld, None)
                if not (isinstance(sub, list) and sub and all(isinstance(x, ast.stmt) for x in sub)):
                    continue
                for i, st in enumerate(sub):
                    if not (isinstance(st, ast.Try) and not st.orelse and not st.finalbody and len(st.handlers) == 1 and len(st.body) == 1):
                        continue
                    h = st.handlers[0]
                    if not (isinstance(h.type, ast.Name) and h.type.id == 'IndexError' and h.name is None):
                        continue
                    b = st.body[0]
                    if not (isinstance(b, ast.Assign) and len(b.targets) == 1 and isinstance(b.targets[0], ast.Name)):
                        continue
                    v = b.value
                    cont = None
                    if isinstance(v, ast.Call) and isinstance(v.func, ast.Attribute) and v.func.attr in ('popleft', 'pop') and not v.args and not v.keywords and plain(v.func.value):
                        cont = v.func.value
                    elif isinstance(v, ast.Subscript) and plain(v.value) and isinstance(v.slice, (ast.Constant, ast.UnaryOp)):
                        try:
                            if ast.literal_eval(v.slice) in (0, -1):
                                cont = v.value
                        except (ValueError, SyntaxError):
                            cont = None
                    if cont is None:
                        continue
                    test = ast.Compare(left=ast.Call(func=ast.Name(id='len', ctx=ast.Load()), args=[copy.deepcopy(cont)], keywords=[]), ops=[ast.NotEq()],
                                       comparators=[ast.Constant(value=0)])
                    sub[i] = ast.copy_location(ast.If(test=test, body=[b], orelse=h.body), st)
                    n += 1
        if n:
            ast.fix_missing_locations(m.tree)
            log.append((m.name, [], '%d `try: x = D.popleft()/D[0] except IndexError` written as a length test' % n))
    return log
