"""Normalisation pass run on the parsed package before any rule: *fresh* private helpers are inlined into their callers.

The rules of this verifier are written against the roles that the functions of today's tree play (the confirmed instances are the
reference, see baseline_names.json).  An "extract method" refactoring moves a fragment of such a function into a new private helper;
behaviour is unchanged but the fragment disappears from the function the rule reads.  This pass undoes exactly that edit: a function
whose qualified name is not in the baseline inventory, that is private, plain (no decorator, generator, closure, recursion), that is
only ever *called* (never passed around), and whose returns can be eliminated structurally, is substituted at each of its call sites
and removed.  Anything outside this envelope is left as written and the rules see the helper as an ordinary callee.

The transformation is semantics-preserving by construction:
  - parameters are bound to fresh locals unless the argument is a caller local / constant that the helper does not rebind;
  - helper locals are renamed apart from the caller's names (or onto the assignment target they are returned into);
  - `return` is eliminated only where it is in tail position of a structured if/else/with nesting (guard clauses become if/else);
  - a call is replaced only where it is the first thing its statement evaluates.
"""
import ast
import copy
import json
import os

HERE = os.path.dirname(os.path.abspath(__file__))


def baseline_names():
    p = os.path.join(HERE, 'baseline_names.json')
    with open(p) as fh:
        return set(json.load(fh)['functions'])


def baseline_nested():
    p = os.path.join(HERE, 'baseline_names.json')
    with open(p) as fh:
        return set(json.load(fh).get('nested', []))


def is_private(name):
    # leading underscore, or the package's own convention for processor helpers: a trailing underscore (trans_)
    return (name.startswith('_') or (name.endswith('_') and len(name) > 1)) and not (name.startswith('__') and name.endswith('__'))


class Unsupported(Exception):
    pass


# ----------------------------------------------------------------------------------------------- helper inventory

def _shallow(node):
    todo = list(ast.iter_child_nodes(node))
    while todo:
        n = todo.pop()
        yield n
        if isinstance(n, (ast.FunctionDef, ast.AsyncFunctionDef, ast.ClassDef, ast.Lambda)):
            continue
        todo.extend(ast.iter_child_nodes(n))


def _always_returns(stmts):
    for s in stmts:
        if isinstance(s, (ast.Return, ast.Raise)):
            return True
        if isinstance(s, ast.If) and s.orelse and _always_returns(s.body) and _always_returns(s.orelse):
            return True
        if isinstance(s, ast.With) and _always_returns(s.body):
            return True
    return False


def _has_return(stmts):
    return any(isinstance(n, ast.Return) for s in stmts for n in ([s] + list(_shallow(s))))


class Helper:
    def __init__(self, qual, module, cls, node):
        self.qual = qual
        self.module = module
        self.cls = cls          # ClassDef or None
        self.node = node
        self.name = node.name
        a = node.args
        self.params = [x.arg for x in a.posonlyargs + a.args]
        self.defaults = dict(zip(reversed(self.params), reversed(a.defaults)))
        self.static = cls is not None and len(node.decorator_list) == 1 and isinstance(node.decorator_list[0], ast.Name) and node.decorator_list[0].id == 'staticmethod'
        self.is_method = cls is not None
        body = list(node.body)
        if body and isinstance(body[0], ast.Expr) and isinstance(body[0].value, ast.Constant) and isinstance(body[0].value.value, str):
            body = body[1:]
        body = [b for b in body if not isinstance(b, (ast.Global, ast.Nonlocal))]
        self.body = body
        self.expr = body[0].value if len(body) == 1 and isinstance(body[0], ast.Return) and body[0].value is not None else None
        self.unique = False
        self.parent = None          # enclosing FunctionDef for a nested helper (a closure)
        self.holder = None
        self.nonlocals = {nm for x in _shallow(node) if isinstance(x, ast.Nonlocal) for nm in x.names}

    def eligible(self):
        n = self.node
        a = n.args
        if (n.decorator_list and not self.static) or isinstance(n, ast.AsyncFunctionDef) or a.vararg or a.kwarg or a.kwonlyargs:
            return False
        if self.is_method and not self.params and not self.static:
            return False
        if not self.body:
            return False
        for x in _shallow(n):
            if isinstance(x, (ast.Yield, ast.YieldFrom, ast.Await, ast.Global, ast.Nonlocal, ast.FunctionDef, ast.AsyncFunctionDef, ast.ClassDef, ast.Lambda,
                              ast.ListComp, ast.SetComp, ast.DictComp, ast.GeneratorExp, ast.Try, ast.Delete, ast.NamedExpr)):
                # comprehensions have their own scopes; try/finally interacts with return; keep the envelope small
                if isinstance(x, (ast.ListComp, ast.SetComp, ast.DictComp, ast.GeneratorExp)) and self.expr is None:
                    # comprehension variables are scoped to the comprehension: renaming handles them like locals, which is still correct
                    continue
                if isinstance(x, (ast.ListComp, ast.SetComp, ast.DictComp, ast.GeneratorExp)):
                    continue
                if isinstance(x, ast.Try) and not _has_return([x]):
                    continue        # a try block without a return inside moves as a whole
                if isinstance(x, ast.Global) and not (set(x.names) & _stored_names(n.body)):
                    continue        # a `global` declaration for names the helper only reads says nothing
                if isinstance(x, ast.Nonlocal) and self.parent is not None and x in n.body:
                    continue        # a closure inlined into its parent: nonlocal names are the parent's own variables
                return False
            if isinstance(x, ast.Call):
                f = x.func
                if (isinstance(f, ast.Attribute) and f.attr == self.name) or (isinstance(f, ast.Name) and f.id == self.name):
                    return False        # recursion
                if isinstance(f, ast.Name) and f.id in ('locals', 'vars', 'super', 'eval', 'exec'):
                    return False
        # returns inside nested loops cannot be eliminated structurally (one loop level becomes `<assign>; break`)
        for x in _shallow(n):
            if isinstance(x, (ast.For, ast.While)):
                for y in _shallow(x):
                    if isinstance(y, (ast.For, ast.While)) and _has_return(y.body + y.orelse):
                        return False
                if _has_return(x.orelse):
                    return False
        return True


def _nested_defs(fn, q):
    """(nested FunctionDef, its qualified name, the statement list that holds it) for functions nested directly in fn's blocks"""
    out = []

    def rec(stmts):
        for st in stmts:
            if isinstance(st, ast.FunctionDef):
                out.append((st, q + '.' + st.name, stmts))
                continue
            if isinstance(st, ast.ClassDef):
                continue
            for f in ('body', 'orelse', 'finalbody'):
                if isinstance(getattr(st, f, None), list):
                    rec(getattr(st, f))
            for hd in getattr(st, 'handlers', []) or []:
                rec(hd.body)
    rec(fn.body)
    return out


def collect_helpers(modules, baseline, nested_baseline=None):
    out = {}
    nested_baseline = nested_baseline if nested_baseline is not None else baseline_nested()

    def add_nested(m, fn, q, depth=0):
        for d, dq, holder in _nested_defs(fn, q):
            if dq not in nested_baseline and dq not in baseline and not getattr(d, '_keep_nested', False):
                h = Helper(dq, m, None, d)
                h.parent = fn
                h.holder = holder
                out[dq] = h
            if depth < 2:
                add_nested(m, d, dq, depth + 1)
    for m in modules.values():
        for st in m.tree.body:
            if isinstance(st, ast.FunctionDef):
                add_nested(m, st, '%s.%s' % (m.name, st.name))
            elif isinstance(st, ast.ClassDef):
                for s2 in st.body:
                    if isinstance(s2, ast.FunctionDef):
                        add_nested(m, s2, '%s.%s.%s' % (m.name, st.name, s2.name))
    for m in modules.values():
        for st in m.tree.body:
            if isinstance(st, ast.FunctionDef):
                q = '%s.%s' % (m.name, st.name)
                if q not in baseline and is_private(st.name):
                    out[q] = Helper(q, m, None, st)
            elif isinstance(st, ast.ClassDef):
                for s2 in st.body:
                    if isinstance(s2, ast.FunctionDef):
                        q = '%s.%s.%s' % (m.name, st.name, s2.name)
                        if q not in baseline and is_private(s2.name):
                            out[q] = Helper(q, m, st, s2)
    return out


# ----------------------------------------------------------------------------------------------- return elimination

def eliminate_returns(stmts, emit):
    """stmts with every `return v` (all in tail position) replaced by emit(v) -> [stmts]; raises Unsupported otherwise.
    The rest of a block after an `if` whose branch returns is moved into the other branch (guard clause -> if/else)."""
    out = []
    for i, s in enumerate(stmts):
        rest = stmts[i + 1:]
        if isinstance(s, ast.Return):
            out.extend(emit(s.value))
            return out
        if not _has_return([s]):
            out.append(s)
            continue
        if isinstance(s, ast.If):
            body_ret = _always_returns(s.body)
            else_ret = _always_returns(s.orelse) if s.orelse else False
            nb = list(s.body) + ([] if body_ret else [copy.deepcopy(x) for x in rest])
            ne = list(s.orelse) + ([] if else_ret else [copy.deepcopy(x) for x in rest])
            if not body_ret and not else_ret and rest and _has_return(s.body) and _has_return(s.orelse):
                raise Unsupported('returns in both branches with a shared continuation')
            new = ast.If(test=s.test, body=eliminate_returns(nb, emit) or [ast.Pass()], orelse=eliminate_returns(ne, emit))
            ast.copy_location(new, s)
            out.append(new)
            return out
        if isinstance(s, ast.With):
            if rest and not _always_returns(s.body):
                raise Unsupported('return inside with followed by more statements')
            new = ast.With(items=s.items, body=eliminate_returns(list(s.body), emit) or [ast.Pass()])
            ast.copy_location(new, s)
            out.append(new)
            if _always_returns(s.body):
                return out
            continue
        if isinstance(s, (ast.While, ast.For)):
            endless = isinstance(s, ast.While) and isinstance(s.test, ast.Constant) and bool(s.test.value)
            has_break = any(isinstance(n, ast.Break) for n in _loop_level(s.body))
            normal_exit = (not endless) or has_break
            if rest and normal_exit:
                raise Unsupported('return inside a loop that is followed by more statements')
            new = copy.copy(s)
            new.body = _loop_elim(list(s.body), emit)
            if normal_exit:
                tail = emit(None)
                if tail:
                    if has_break:
                        raise Unsupported('loop with both break and return')
                    new.orelse = tail
            out.append(new)
            return out
        raise Unsupported('return inside %s' % type(s).__name__)
    # fell off the end: implicit return None
    out.extend(emit(None))
    return out


def _loops_forever(stmts):
    return bool(stmts) and isinstance(stmts[-1], ast.While) and isinstance(stmts[-1].test, ast.Constant) and bool(stmts[-1].test.value)


def _loop_level(stmts):
    """statements of a loop body that belong to this loop level (not to nested loops / defs)"""
    for s in stmts:
        yield s
        if isinstance(s, (ast.For, ast.While, ast.FunctionDef, ast.AsyncFunctionDef, ast.ClassDef)):
            continue
        for f in ('body', 'orelse', 'finalbody'):
            if isinstance(getattr(s, f, None), list):
                yield from _loop_level(getattr(s, f))


def _loop_elim(stmts, emit):
    out = []
    for s in stmts:
        if isinstance(s, ast.Return):
            out.extend(emit(s.value))
            out.append(ast.copy_location(ast.Break(), s))
            return out
        if not _has_return([s]):
            out.append(s)
            continue
        if isinstance(s, ast.If):
            new = ast.If(test=s.test, body=_loop_elim(list(s.body), emit) or [ast.Pass()], orelse=_loop_elim(list(s.orelse), emit))
            out.append(ast.copy_location(new, s))
            continue
        if isinstance(s, ast.With):
            new = ast.With(items=s.items, body=_loop_elim(list(s.body), emit) or [ast.Pass()])
            out.append(ast.copy_location(new, s))
            continue
        raise Unsupported('return inside %s inside a loop' % type(s).__name__)
    return out


# ----------------------------------------------------------------------------------------------- substitution

class Rename(ast.NodeTransformer):
    def __init__(self, names, exprs):
        self.names = names      # local name -> new name
        self.exprs = exprs      # name -> replacement expression (loads only)

    def visit_Name(self, n):
        if n.id in self.exprs and isinstance(n.ctx, ast.Load):
            return ast.copy_location(copy.deepcopy(self.exprs[n.id]), n)
        if n.id in self.names:
            return ast.copy_location(ast.Name(id=self.names[n.id], ctx=n.ctx), n)
        return n

    def visit_arg(self, n):
        return n


def _only_called(stmts, p, lam):
    """every occurrence of the name p in stmts is the callee of a call with plain positional arguments matching the lambda"""
    la = lam.args
    if la.vararg or la.kwarg or la.kwonlyargs or la.defaults or la.posonlyargs:
        return False
    callees = set()
    n_occ = 0
    for s in stmts:
        for n in ast.walk(s):
            if isinstance(n, ast.Call) and isinstance(n.func, ast.Name) and n.func.id == p:
                if n.keywords or len(n.args) != len(la.args) or not all(isinstance(a, (ast.Name, ast.Attribute, ast.Constant)) for a in n.args):
                    return False
                callees.add(id(n.func))
    for s in stmts:
        for n in ast.walk(s):
            if isinstance(n, ast.Name) and n.id == p:
                n_occ += 1
                if id(n) not in callees:
                    return False
    return n_occ > 0


class _Beta(ast.NodeTransformer):
    """(lambda x: body)(arg)  ->  body[x := arg]  for lambda-valued parameters of an inlined helper"""

    def __init__(self, lambdas):
        self.lambdas = lambdas

    def visit_Call(self, n):
        self.generic_visit(n)
        if isinstance(n.func, ast.Name) and n.func.id in self.lambdas:
            lam = self.lambdas[n.func.id]
            mapping = {a.arg: arg for a, arg in zip(lam.args.args, n.args)}
            return ast.copy_location(Rename({}, mapping).visit(copy.deepcopy(lam.body)), n)
        return n


def _simplify_bool(e):
    """`False or x` -> x, `True and x` -> x, `True or x` -> True, `False and x` -> False, `not <const>` folded (after constant parameters were substituted)"""
    if isinstance(e, ast.UnaryOp) and isinstance(e.op, ast.Not):
        v = _simplify_bool(e.operand)
        if isinstance(v, ast.Constant) and isinstance(v.value, (bool, type(None))):
            return ast.copy_location(ast.Constant(value=not v.value), e)
        e.operand = v
        return e
    if isinstance(e, ast.BoolOp):
        vals = [_simplify_bool(v) for v in e.values]
        is_or = isinstance(e.op, ast.Or)
        out = []
        for i, v in enumerate(vals):
            if isinstance(v, ast.Constant) and isinstance(v.value, (bool, type(None))):
                if bool(v.value) == is_or:
                    # decides the whole expression unless an earlier operand has effects (calls): keep those
                    if not any(isinstance(n, ast.Call) for o in out for n in ast.walk(o)):
                        return ast.copy_location(ast.Constant(value=bool(v.value)), e)
                    out.append(v)
                    break
                continue        # neutral element
            out.append(v)
        if not out:
            return ast.copy_location(ast.Constant(value=not is_or), e)
        if len(out) == 1:
            return out[0]
        e.values = out
        return e
    return e


def _fold(stmts):
    """dead-branch elimination after constant parameters were substituted: `if True: A else: B` -> A"""
    out = []
    for s in stmts:
        for f in ('body', 'orelse', 'finalbody'):
            if isinstance(getattr(s, f, None), list) and not isinstance(s, (ast.FunctionDef, ast.AsyncFunctionDef, ast.ClassDef)):
                setattr(s, f, _fold(getattr(s, f)))
        if isinstance(s, ast.Try):
            for hd in s.handlers:
                hd.body = _fold(hd.body)
        if isinstance(s, (ast.If, ast.While)):
            s.test = _simplify_bool(s.test)
        if isinstance(s, ast.If):
            t = s.test
            neg = False
            while isinstance(t, ast.UnaryOp) and isinstance(t.op, ast.Not):
                t = t.operand
                neg = not neg
            if isinstance(t, ast.Constant) and isinstance(t.value, (bool, type(None), int)):
                v = bool(t.value) != neg
                out.extend(s.body if v else s.orelse)
                continue
            if not s.body:
                s.body = [ast.copy_location(ast.Pass(), s)]
        out.append(s)
    return out


def _names_in(node):
    return {n.id for n in ast.walk(node) if isinstance(n, ast.Name)}


def _stored_names(stmts):
    out = set()
    for s in stmts:
        for n in ast.walk(s):
            if isinstance(n, ast.Name) and isinstance(n.ctx, (ast.Store, ast.Del)):
                out.add(n.id)
    return out


def _simple_arg(a):
    if isinstance(a, ast.Constant):
        return True
    if isinstance(a, ast.Name):
        return True
    # a named constant (signals.SUBSCRIBE_META_SIGNAL, return_status.HANDLED, Class.QUEUE_SIZE): reading it commutes with everything
    if isinstance(a, ast.Attribute) and a.attr.isupper() and _pure(a):
        return True
    return False


def instantiate(h, call, caller_node, recv, target_names=None):
    """(prologue stmts, body stmts with locals renamed and parameters bound, return-name hints).  Raises Unsupported."""
    params = h.params[1:] if (h.is_method and not h.static) else list(h.params)
    bound = {}
    if len(call.args) > len(params):
        raise Unsupported('too many arguments')
    for p, a in zip(params, call.args):
        if isinstance(a, ast.Starred):
            raise Unsupported('starred argument')
        bound[p] = a
    for kw in call.keywords:
        if kw.arg is None or kw.arg not in params or kw.arg in bound:
            raise Unsupported('keyword argument')
        bound[kw.arg] = kw.value
    for p in params:
        if p not in bound:
            if p in h.defaults:
                bound[p] = h.defaults[p]
            else:
                raise Unsupported('missing argument')
    stored = _stored_names(h.body) - h.nonlocals
    caller_names = _names_in(caller_node)
    arg_names = set()
    for a in bound.values():
        arg_names |= _names_in(a)
    exprs = {}
    names = {}
    prologue = []
    if h.is_method and not h.static:
        exprs[h.params[0]] = recv
        if h.params[0] in stored:
            raise Unsupported('helper rebinds self')
    used_new = set()

    def fresh(base):
        cand = base
        k = 0
        while cand in caller_names or cand in used_new or cand in arg_names:
            k += 1
            cand = '%s__%s%s' % (base, h.name.strip('_'), '' if k == 1 else str(k))
        used_new.add(cand)
        return cand
    body_has_calls = any(isinstance(n, ast.Call) for s in h.body for n in ast.walk(s))
    lambdas = {}
    for p in params:
        a = bound[p]
        if isinstance(a, ast.Lambda) and p not in stored and _only_called(h.body, p, a):
            lambdas[p] = a
            continue
        once_pure = h.expr is not None and _pure(a) and sum(1 for n in ast.walk(h.expr) if isinstance(n, ast.Name) and n.id == p) <= 1
        if p not in stored and (_simple_arg(a) or once_pure) and not (isinstance(a, ast.Name) and a.id in stored and a.id != p) and not (target_names and p in target_names):
            if isinstance(a, ast.Name) and a.id == p:
                continue            # same name, nothing to do
            exprs[p] = a
        else:
            newp = target_names[p] if (target_names and p in target_names) else fresh(p)
            used_new.add(newp)
            names[p] = newp
            asg = ast.Assign(targets=[ast.Name(id=newp, ctx=ast.Store())], value=copy.deepcopy(a), lineno=call.lineno, col_offset=call.col_offset)
            prologue.append(asg)
    for loc in sorted(stored):
        if loc in names or loc in exprs:
            continue
        if loc in params:
            continue
        if target_names and loc in target_names:
            names[loc] = target_names[loc]        # returned into this caller variable
            used_new.add(names[loc])
            continue
        if loc in caller_names or loc in arg_names:
            names[loc] = fresh(loc)
    body = [copy.deepcopy(s) for s in h.body]
    if lambdas:
        body = [_Beta(lambdas).visit(s) for s in body]
    body = [Rename(names, exprs).visit(s) for s in body]
    body = _fold(body)
    return prologue, body, names


# ----------------------------------------------------------------------------------------------- call sites

def _first_evaluated_call(stmt, call):
    """is `call` the first call the statement evaluates (so that hoisting it in front of the statement preserves order)?"""
    e = None
    if isinstance(stmt, (ast.Expr, ast.Return)):
        e = stmt.value
    elif isinstance(stmt, ast.Assign):
        e = stmt.value
        for t in stmt.targets:
            if any(isinstance(n, ast.Call) for n in ast.walk(t)):
                return False
    elif isinstance(stmt, ast.If):
        e = stmt.test
    if e is None:
        return False
    while True:
        if e is call:
            return True
        if isinstance(e, (ast.Yield, ast.Await)) and e.value is not None:
            e = e.value
            continue
        if isinstance(e, ast.UnaryOp):
            e = e.operand
        elif isinstance(e, ast.Compare):
            e = e.left
        elif isinstance(e, ast.BoolOp):
            e = e.values[0]
        elif isinstance(e, ast.BinOp):
            e = e.left
        elif isinstance(e, ast.Call) and e is not call:
            # the callee expression is evaluated first, then the arguments from the left
            if _pure(e.func):
                if e.args:
                    e = e.args[0]
                elif e.keywords:
                    e = e.keywords[0].value
                else:
                    return False
            elif isinstance(e.func, ast.Attribute):
                e = e.func.value
            else:
                return False
        elif isinstance(e, ast.Attribute):
            e = e.value
        elif isinstance(e, ast.Subscript):
            e = e.value
        elif isinstance(e, ast.Tuple) and e.elts:
            e = e.elts[0]
        else:
            return False


def _pure(x):
    """evaluating x has no effect: names, constants, attribute chains over them, super()"""
    if isinstance(x, (ast.Name, ast.Constant)):
        return True
    if isinstance(x, ast.Attribute):
        return _pure(x.value)
    if isinstance(x, ast.Call) and isinstance(x.func, ast.Name) and x.func.id == 'super' and not x.args and not x.keywords:
        return True
    return False


class _ReplaceNode(ast.NodeTransformer):
    def __init__(self, old, new):
        self.old, self.new = old, new

    def visit(self, node):
        if node is self.old:
            return self.new
        return super().visit(node)


def _matches(call, h, selfnames):
    f = call.func
    if h.is_method:
        if not (isinstance(f, ast.Attribute) and f.attr == h.name and isinstance(f.value, ast.Name)):
            return False
        # `self.helper(..)`; or, for a helper whose name is defined once in the whole package, `other.helper(..)` on another object of the class;
        # a static helper may also be reached through the class name
        return f.value.id in selfnames or h.unique or (h.static and h.cls is not None and f.value.id == h.cls.name)
    return isinstance(f, ast.Name) and f.id == h.name


def _tmpname(h, used):
    base = '%s_result' % h.name.strip('_')
    cand = base
    k = 1
    while cand in used:
        k += 1
        cand = '%s%d' % (base, k)
    return cand


def inline_into_function(fn, h, selfnames, counter):
    """rewrite fn (a FunctionDef) in place; returns number of sites inlined; raises Unsupported if some site cannot be inlined"""
    n_sites = [0]

    def expr_inline(call):
        # pure expression helper: substitute in place
        prologue, body, names = instantiate(h, call, fn, call.func.value if h.is_method else None)
        if prologue:
            raise Unsupported('expression helper needs parameter binding')
        return body[0].value

    def do_block(stmts):
        out = []
        for st in stmts:
            # nested function definitions share `self` through the closure: descend with the same rule
            if isinstance(st, (ast.FunctionDef, ast.AsyncFunctionDef)):
                if st is not h.node:
                    st.body = do_block(st.body)
                out.append(st)
                continue
            if isinstance(st, ast.ClassDef):
                out.append(st)
                continue
            # calls in the header expressions of this statement
            header = []
            if isinstance(st, (ast.Expr, ast.Return, ast.Assign, ast.AugAssign, ast.AnnAssign, ast.Assert, ast.Raise)):
                header = [st]
            hdr_calls = []
            if isinstance(st, (ast.If, ast.While)):
                hdr_calls = [c for c in ast.walk(st.test) if isinstance(c, ast.Call) and _matches(c, h, selfnames)]
            elif isinstance(st, ast.For):
                hdr_calls = [c for c in ast.walk(st.iter) if isinstance(c, ast.Call) and _matches(c, h, selfnames)]
            elif isinstance(st, ast.With):
                hdr_calls = [c for it in st.items for c in ast.walk(it.context_expr) if isinstance(c, ast.Call) and _matches(c, h, selfnames)]
            elif header:
                hdr_calls = [c for c in ast.walk(st) if isinstance(c, ast.Call) and _matches(c, h, selfnames)]
            pre = []
            for c in hdr_calls:
                n_sites[0] += 1
                if h.expr is not None:
                    try:
                        new = expr_inline(c)
                        st = _ReplaceNode(c, new).visit(st)
                        continue
                    except Unsupported:
                        pass
                if len(hdr_calls) != 1:
                    raise Unsupported('several calls of the helper in one statement')
                if isinstance(st, (ast.While, ast.For, ast.With, ast.AugAssign, ast.AnnAssign, ast.Assert, ast.Raise)):
                    raise Unsupported('helper call in the header of %s' % type(st).__name__)
                if not _first_evaluated_call(st, c):
                    raise Unsupported('helper call is not the first evaluation of its statement')
                recv = c.func.value if h.is_method else None
                # ---- statement forms
                if isinstance(st, ast.Return) and st.value is c:
                    prologue, body, names = instantiate(h, c, fn, recv)
                    pre = prologue + body
                    if not _always_returns(body):
                        pre.append(ast.copy_location(ast.Return(value=None), st))
                    st = None
                    break
                if isinstance(st, ast.Expr) and st.value is c:
                    prologue, body, names = instantiate(h, c, fn, recv)

                    def emit(v, st=st):
                        if v is not None and any(isinstance(n, ast.Call) for n in ast.walk(v)):
                            return [ast.copy_location(ast.Expr(value=v), st)]
                        return []
                    pre = prologue + (eliminate_returns(body, emit) or [])
                    st = None
                    break
                if isinstance(st, ast.Assign) and st.value is c and len(st.targets) == 1:
                    tgt = st.targets[0]
                    tnames = None
                    if isinstance(tgt, ast.Name):
                        tnames = {tgt.id}
                    elif isinstance(tgt, ast.Tuple) and all(isinstance(e, ast.Name) for e in tgt.elts):
                        tnames = {e.id for e in tgt.elts}
                    # a helper variable that is what every return hands to a caller variable takes that variable's name
                    hints = {}
                    if tnames and not any(isinstance(x, ast.Try) for x in ast.walk(fn)):
                        rets = [n for s in h.body for n in ([s] + list(_shallow(s))) if isinstance(n, ast.Return)]
                        tg = tgt.elts if isinstance(tgt, ast.Tuple) else [tgt]
                        per_pos = [set() for _ in tg]
                        okh = bool(rets) and _always_returns(h.body) or _loops_forever(h.body)
                        for r in rets:
                            if r.value is None:
                                okh = False
                                break
                            vals = r.value.elts if (isinstance(r.value, ast.Tuple) and isinstance(tgt, ast.Tuple)) else [r.value]
                            if len(vals) != len(tg):
                                okh = False
                                break
                            for k, v in enumerate(vals):
                                per_pos[k].add(v.id if isinstance(v, ast.Name) else None)
                        if okh:
                            hparams = h.params[1:] if (h.is_method and not h.static) else list(h.params)
                            argmap = dict(zip(hparams, c.args))
                            for kw in c.keywords:
                                argmap[kw.arg] = kw.value
                            for k, t in enumerate(tg):
                                if len(per_pos[k]) == 1 and None not in per_pos[k]:
                                    v = next(iter(per_pos[k]))
                                    others = set()
                                    for pn, a in argmap.items():
                                        if pn != v:
                                            others |= _names_in(a)
                                    if v in hints or t.id in hints.values() or t.id in others:
                                        continue
                                    if v == (h.params[0] if (h.is_method and not h.static) else None):
                                        continue
                                    hints[v] = t.id
                    prologue, body, names = instantiate(h, c, fn, recv, target_names=hints)

                    def emit(v, st=st, tgt=tgt):
                        v = v if v is not None else ast.Constant(value=None)
                        # `a, b = a, b` after name unification is a no-op
                        if isinstance(tgt, ast.Tuple) and isinstance(v, ast.Tuple) and len(tgt.elts) == len(v.elts) and \
                                all(isinstance(x, ast.Name) and isinstance(y, ast.Name) and x.id == y.id for x, y in zip(tgt.elts, v.elts)):
                            return []
                        if isinstance(tgt, ast.Name) and isinstance(v, ast.Name) and tgt.id == v.id:
                            return []
                        a = ast.Assign(targets=[copy.deepcopy(tgt)], value=v)
                        return [ast.copy_location(a, st)]
                    pre = prologue + eliminate_returns(body, emit)
                    st = None
                    break
                # ---- hoist: tmp = helper(...) in front of the statement
                tmp = _tmpname(h, _names_in(fn))
                prologue, body, names = instantiate(h, c, fn, recv)

                def emit(v, st=st, tmp=tmp):
                    v = v if v is not None else ast.Constant(value=None)
                    a = ast.Assign(targets=[ast.Name(id=tmp, ctx=ast.Store())], value=v)
                    return [ast.copy_location(a, st)]
                pre = prologue + eliminate_returns(body, emit)
                st = _ReplaceNode(c, ast.copy_location(ast.Name(id=tmp, ctx=ast.Load()), c)).visit(st)
            for p in pre:
                ast.fix_missing_locations(p)
            # inlined bodies may themselves contain nested blocks with further calls of other helpers: handled in later rounds
            out.extend(pre)
            if st is None:
                continue
            for field in ('body', 'orelse', 'finalbody'):
                if hasattr(st, field) and isinstance(getattr(st, field), list):
                    setattr(st, field, do_block(getattr(st, field)))
            if isinstance(st, ast.Try):
                for hd in st.handlers:
                    hd.body = do_block(hd.body)
            out.append(st)
        return out
    fn.body = do_block(fn.body)
    ast.fix_missing_locations(fn)
    return n_sites[0]


def _remove_nested(fn, node):
    def rec(stmts):
        for i, st in enumerate(stmts):
            if st is node:
                del stmts[i]
                if not stmts:
                    stmts.append(ast.copy_location(ast.Pass(), node))
                return True
            for f in ('body', 'orelse', 'finalbody'):
                if isinstance(getattr(st, f, None), list) and rec(getattr(st, f)):
                    return True
            for hd in getattr(st, 'handlers', []) or []:
                if rec(hd.body):
                    return True
        return False
    rec(fn.body)


def _references(modules, h):
    """(call sites, other references) of the helper's name across the package"""
    calls = 0
    other = 0
    for m in modules.values():
        callfuncs = set()
        for n in ast.walk(m.tree):
            if isinstance(n, ast.Call):
                callfuncs.add(id(n.func))
        for n in ast.walk(m.tree):
            if isinstance(n, ast.Attribute) and n.attr == h.name:
                if id(n) in callfuncs:
                    calls += 1
                else:
                    other += 1
            elif isinstance(n, ast.Name) and n.id == h.name and not h.is_method:
                if id(n) in callfuncs:
                    calls += 1
                else:
                    other += 1
            elif isinstance(n, ast.Constant) and isinstance(n.value, str) and n.value == h.name:
                other += 1          # getattr(self, '<name>')
    return calls, other


def inline_fresh_helpers(modules, baseline=None, rounds=4):
    """mutates the module trees; returns [(helper qualname, [caller names], status)]"""
    baseline = baseline if baseline is not None else baseline_names()
    log = []
    for _ in range(40):
        helpers = collect_helpers(modules, baseline)
        progressed = False
        # innermost first: helpers that call no other fresh helper
        names = {h.name for h in helpers.values()}
        order = sorted(helpers.values(), key=lambda h: sum(1 for n in ast.walk(h.node) if isinstance(n, ast.Call) and
                                                          ((isinstance(n.func, ast.Attribute) and n.func.attr in names) or (isinstance(n.func, ast.Name) and n.func.id in names))))
        for h in order:
            if any(l[0] == h.qual and l[2] != 'inlined' for l in log):
                continue
            if not h.eligible():
                log.append((h.qual, [], 'kept: outside the inlining envelope'))
                continue
            h.unique = sum(1 for m_ in modules.values() for n_ in ast.walk(m_.tree) if isinstance(n_, (ast.FunctionDef, ast.AsyncFunctionDef)) and n_.name == h.name) == 1
            calls, other = _references(modules, h)
            if other or not calls:
                log.append((h.qual, [], 'kept: referenced other than by direct calls' if other else 'kept: never called'))
                continue
            # candidate caller functions: same class (methods, with their nested functions) for methods; same module for functions
            m = h.module
            if h.parent is not None:
                fns = [h.parent]
                # the closure must only be called inside its parent, and must not be captured by a sibling closure that outlives the call
                inside = sum(1 for n in ast.walk(h.parent) if isinstance(n, ast.Call) and isinstance(n.func, ast.Name) and n.func.id == h.name
                             and not any(n is x for x in ast.walk(h.node)))
                if inside != calls:
                    log.append((h.qual, [], 'kept: called outside its parent'))
                    continue
            elif h.is_method:
                fns = [s for s in h.cls.body if isinstance(s, ast.FunctionDef) and s is not h.node]
            else:
                fns = []
                for st in m.tree.body:
                    if isinstance(st, ast.FunctionDef) and st is not h.node:
                        fns.append(st)
                    elif isinstance(st, ast.ClassDef):
                        fns.extend(s for s in st.body if isinstance(s, ast.FunctionDef))
            backup = {id(fn): copy.deepcopy(fn) for fn in fns}
            done = 0
            callers = []
            try:
                for fn in fns:
                    selfnames = {fn.args.args[0].arg} if (h.is_method and fn.args.args) else set()
                    k = inline_into_function(fn, h, selfnames, None)
                    if k:
                        callers.append(fn.name)
                    done += k
                if done != calls:
                    raise Unsupported('%d of %d call sites are outside the class/module or use another receiver' % (done, calls))
            except Unsupported as ex:
                # restore
                for fn in fns:
                    b = backup[id(fn)]
                    fn.body = b.body
                log.append((h.qual, [], 'kept: %s' % ex))
                continue
            # remove the definition
            if h.parent is not None:
                _remove_nested(h.parent, h.node)
            elif h.is_method:
                h.cls.body.remove(h.node)
            else:
                m.tree.body.remove(h.node)
            log.append((h.qual, callers, 'inlined'))
            progressed = True
            break           # helper set changed: recompute
        if not progressed:
            break
    return log


# ----------------------------------------------------------------------------------------------- parametrised factories

def specialise_fresh_factories(modules, baseline=None):
    """`X = _fresh_factory(<constants>)` at module or class level, where the fresh private factory is
           def _fresh_factory(p, ..):  [docstring]  def inner(..): ...   return inner
       becomes `def X(..): <body of inner with p := constant>` (a closure over constants is the function with the constants written in).
       The factory definition is removed when every use was specialised."""
    baseline = baseline if baseline is not None else baseline_names()
    log = []
    for m in modules.values():
        facs = {}
        for st in m.tree.body:
            if isinstance(st, ast.FunctionDef) and ('%s.%s' % (m.name, st.name)) not in baseline and not st.decorator_list:
                body = list(st.body)
                if body and isinstance(body[0], ast.Expr) and isinstance(body[0].value, ast.Constant) and isinstance(body[0].value.value, str):
                    body = body[1:]
                a = st.args
                if len(body) == 2 and isinstance(body[0], ast.FunctionDef) and isinstance(body[1], ast.Return) and isinstance(body[1].value, ast.Name) \
                        and body[1].value.id == body[0].name and not (a.vararg or a.kwarg or a.kwonlyargs or a.defaults):
                    params = [x.arg for x in a.posonlyargs + a.args]
                    stored = {n.id for n in ast.walk(body[0]) if isinstance(n, ast.Name) and isinstance(n.ctx, ast.Store)}
                    if not (set(params) & stored):
                        facs[st.name] = (st, body[0], params)
        if not facs:
            continue
        uses = {k: 0 for k in facs}
        done = {k: 0 for k in facs}
        for n in ast.walk(m.tree):
            if isinstance(n, ast.Name) and n.id in facs and isinstance(n.ctx, ast.Load):
                uses[n.id] += 1

        def rewrite(stmts):
            out = []
            for st in stmts:
                if isinstance(st, ast.ClassDef):
                    st.body = rewrite(st.body)
                if isinstance(st, ast.Assign) and len(st.targets) == 1 and isinstance(st.targets[0], ast.Name) and isinstance(st.value, ast.Call) \
                        and isinstance(st.value.func, ast.Name) and st.value.func.id in facs and not st.value.keywords \
                        and all(isinstance(x, ast.Constant) for x in st.value.args):
                    fdef, inner, params = facs[st.value.func.id]
                    if len(st.value.args) == len(params):
                        new = copy.deepcopy(inner)
                        new.name = st.targets[0].id
                        mapping = dict(zip(params, st.value.args))
                        new.body = [Rename({}, mapping).visit(x) for x in new.body]
                        ast.copy_location(new, st)
                        ast.fix_missing_locations(new)
                        out.append(new)
                        done[st.value.func.id] += 1
                        continue
                out.append(st)
            return out
        m.tree.body = rewrite(m.tree.body)
        for k, (fdef, inner, params) in facs.items():
            if done[k] and done[k] == uses[k]:
                m.tree.body.remove(fdef)
                log.append(('%s.%s' % (m.name, k), ['<%d bindings>' % done[k]], 'specialised'))
            elif done[k]:
                log.append(('%s.%s' % (m.name, k), [], 'partly specialised (%d of %d uses)' % (done[k], uses[k])))
    return log


# ----------------------------------------------------------------------------------------------- closures lifted to methods

def nest_lifted_closures(modules, baseline=None, nested=None):
    """a fresh private method whose name (without leading underscores) is that of a function that was nested in its only caller in the baseline tree
    is put back as a nested function of that caller (the inverse of "lift a closure to a method"): `self._helper(a)` -> `helper(a)`, the helper's
    self parameter becomes the caller's self through the closure"""
    baseline = baseline if baseline is not None else baseline_names()
    nested = nested if nested is not None else baseline_nested()
    log = []
    for m in modules.values():
        for cls in [st for st in m.tree.body if isinstance(st, ast.ClassDef)]:
            for hdef in [s2 for s2 in cls.body if isinstance(s2, ast.FunctionDef)]:
                q = '%s.%s.%s' % (m.name, cls.name, hdef.name)
                if q in baseline or not is_private(hdef.name):
                    continue
                h = Helper(q, m, cls, hdef)
                if (hdef.decorator_list and not h.static) or hdef.args.vararg or hdef.args.kwarg:
                    continue
                plain = hdef.name.lstrip('_')
                callers = [c for c in cls.body if isinstance(c, ast.FunctionDef) and c is not hdef and
                           ('%s.%s.%s.%s' % (m.name, cls.name, c.name, plain) in nested or '%s.%s.%s.%s' % (m.name, cls.name, c.name, hdef.name) in nested)]
                if not callers:
                    # the same edit with a new name: the only caller had a closure in the baseline, has none of them now, and the fresh method is called from nowhere else
                    for c in cls.body:
                        if not isinstance(c, ast.FunctionDef) or c is hdef:
                            continue
                        pref = '%s.%s.%s.' % (m.name, cls.name, c.name)
                        base_nested = {x[len(pref):] for x in nested if x.startswith(pref) and '.' not in x[len(pref):]}
                        if not base_nested:
                            continue
                        present = {d.name for d, _q, _h in _nested_defs(c, pref[:-1])}
                        calls_here = any(isinstance(n, ast.Call) and isinstance(n.func, ast.Attribute) and n.func.attr == hdef.name for n in ast.walk(c))
                        if calls_here and not (base_nested & present):
                            callers.append(c)
                if len(callers) != 1:
                    continue
                caller = callers[0]
                calls, other = _references(modules, h)
                selfn = caller.args.args[0].arg if caller.args.args else None
                inside = [n for n in ast.walk(caller) if isinstance(n, ast.Call) and isinstance(n.func, ast.Attribute) and n.func.attr == hdef.name
                          and isinstance(n.func.value, ast.Name) and n.func.value.id in (selfn, cls.name)]
                # plain references `self._helper` (a bound method handed to Thread(target=...), for example) inside the same caller are the closure by name
                callfuncs_ = {id(n.func) for n in ast.walk(caller) if isinstance(n, ast.Call)}
                refs_inside = [n for n in ast.walk(caller) if isinstance(n, ast.Attribute) and n.attr == hdef.name and isinstance(n.ctx, ast.Load) and id(n) not in callfuncs_
                               and isinstance(n.value, ast.Name) and n.value.id == selfn and not h.static]
                if (other != len(refs_inside)) or not (inside or refs_inside) or len(inside) != calls:
                    continue
                if any(isinstance(n, ast.Name) and n.id == plain for n in ast.walk(caller)):
                    continue            # the plain name is taken in the caller
                new = copy.deepcopy(hdef)
                new.name = plain
                new.decorator_list = []
                new._keep_nested = True
                if not h.static:
                    hs = new.args.args[0].arg
                    new.args.args = new.args.args[1:]
                    if hs != selfn:
                        new.body = [Rename({hs: selfn}, {}).visit(x) for x in new.body]
                for c in inside:
                    c.func = ast.copy_location(ast.Name(id=plain, ctx=ast.Load()), c.func)
                if refs_inside:
                    ids_ = {id(r_) for r_ in refs_inside}

                    class _Ref(ast.NodeTransformer):
                        def visit_Attribute(self, n):
                            if id(n) in ids_:
                                return ast.copy_location(ast.Name(id=plain, ctx=ast.Load()), n)
                            return self.generic_visit(n)
                    caller.body = [_Ref().visit(x) for x in caller.body]
                pos = 1 if (caller.body and isinstance(caller.body[0], ast.Expr) and isinstance(caller.body[0].value, ast.Constant) and isinstance(caller.body[0].value.value, str)) else 0
                caller.body.insert(pos, new)
                cls.body.remove(hdef)
                ast.fix_missing_locations(caller)
                log.append((q, [caller.name], 'nested back into its caller'))
    return log


# ----------------------------------------------------------------------------------------------- conditional expressions at statement level

class _IfExpToIf(ast.NodeTransformer):
    """`t = a if c else b` -> `if c: t = a else: t = b`;  `return a if c else b` -> `if c: return a else: return b`  (same evaluation order)"""

    def _split(self, st, mk):
        v = st.value
        new = ast.If(test=v.test, body=[mk(v.body)], orelse=[mk(v.orelse)])
        ast.copy_location(new, st)
        ast.fix_missing_locations(new)
        return self.visit(new)

    def visit_Assign(self, st):
        self.generic_visit(st)
        if isinstance(st.value, ast.IfExp) and not any(isinstance(n, ast.Call) for t in st.targets for n in ast.walk(t)):
            return self._split(st, lambda v: ast.copy_location(ast.Assign(targets=copy.deepcopy(st.targets), value=v), st))
        return st

    def visit_Return(self, st):
        self.generic_visit(st)
        if isinstance(st.value, ast.IfExp):
            return self._split(st, lambda v: ast.copy_location(ast.Return(value=v), st))
        return st


def split_conditional_expressions(modules):
    for m in modules.values():
        m.tree = _IfExpToIf().visit(m.tree)
        ast.fix_missing_locations(m.tree)


# ----------------------------------------------------------------------------------------------- diagnostics

LOG_METHODS = {'debug', 'info', 'warning', 'warn', 'error', 'exception', 'critical', 'log'}
PURE_FUNCS = {'str', 'repr', 'len', 'int', 'float', 'bool', 'type', 'id', 'format', 'isinstance', 'getattr', 'hasattr', 'tuple', 'list', 'sorted'}


def _pure_expr(e):
    """evaluating e changes nothing: names, constants, attribute/subscript chains, operators, f-strings, pure builtins, str.format/join"""
    for n in ast.walk(e):
        if isinstance(n, ast.Call):
            f = n.func
            if isinstance(f, ast.Name) and f.id in PURE_FUNCS:
                continue
            if isinstance(f, ast.Attribute) and f.attr in ('format', 'join', 'get', 'keys', 'values', 'items', 'copy', 'qsize', 'is_set', 'is_alive', 'getLogger', 'getName'):
                continue
            return False
        if isinstance(n, (ast.Await, ast.Yield, ast.YieldFrom, ast.NamedExpr, ast.Lambda)):
            return False
    return True


def _is_log_call(c):
    f = c.func
    if not isinstance(f, ast.Attribute) or f.attr not in LOG_METHODS:
        return False
    recv = f.value
    d = None
    try:
        d = ast.unparse(recv)
    except Exception:
        return False
    if d == 'logging' or d.startswith('logging.getLogger(') or d == 'warnings':
        return True
    last = d.split('.')[-1].lower()
    return last in ('log', 'logger', '_log', '_logger', 'logging')


class _StripDiagnostics(ast.NodeTransformer):
    def __init__(self):
        self.n = 0

    def _strip(self, stmts):
        out = []
        for st in stmts:
            if isinstance(st, ast.Expr) and isinstance(st.value, ast.Call) and _is_log_call(st.value) \
                    and all(_pure_expr(a) for a in st.value.args) and all(_pure_expr(k.value) for k in st.value.keywords):
                self.n += 1
                continue
            out.append(st)
        return out

    def generic_visit(self, node):
        super().generic_visit(node)
        for f in ('body', 'orelse', 'finalbody'):
            v = getattr(node, f, None)
            if isinstance(v, list) and v and isinstance(v[0], ast.stmt):
                new = self._strip(v)
                if not new and f == 'body':
                    new = [ast.copy_location(ast.Pass(), v[0])]
                setattr(node, f, new)
        return node


def strip_diagnostics(modules):
    """logging statements with effect-free arguments say nothing about any property: they are dropped before analysis"""
    n = 0
    for m in modules.values():
        t = _StripDiagnostics()
        m.tree = t.visit(m.tree)
        n += t.n
    return n


# ----------------------------------------------------------------------------------------------- local aliases of attribute chains

def _chain(e):
    """('self', 'a', 'b') for the attribute chain self.a.b, or None"""
    parts = []
    while isinstance(e, ast.Attribute):
        parts.append(e.attr)
        e = e.value
    if isinstance(e, ast.Name):
        return tuple([e.id] + parts[::-1])
    return None


def propagate_attribute_aliases(modules):
    """`q = self.queue` (also as one element of a tuple assignment), bound exactly once, at the top level of the function body before any use, where the
    function never assigns to self.queue or a prefix of it and never rebinds `self`: every later `q` is `self.queue`.  The alias is written out and the
    binding dropped, so that rules about `self.queue.append(..)` see the same calls however the code abbreviates them.  (An alias of an attribute that the
    function itself re-assigns is left alone: it keeps the *old* object, which is not the same thing.)"""
    log = []
    # attribute names that some function other than a constructor (re)binds: an alias of such an attribute taken before a call is NOT the attribute after
    # the call (whoever runs in between may have replaced the object) - these are never written out
    rebound = set()
    for m in modules.values():
        for fn in [n for n in ast.walk(m.tree) if isinstance(n, ast.FunctionDef)]:
            if fn.name == '__init__':
                continue
            for n in ast.walk(fn):
                if isinstance(n, ast.Attribute) and isinstance(n.ctx, (ast.Store, ast.Del)):
                    rebound.add(n.attr)
                elif isinstance(n, ast.Call) and isinstance(n.func, ast.Name) and n.func.id in ('setattr', 'delattr') and len(n.args) >= 2:
                    rebound.add(n.args[1].value if isinstance(n.args[1], ast.Constant) else '*')
    for m in modules.values():
        for fn in [n for n in ast.walk(m.tree) if isinstance(n, ast.FunctionDef)]:
            params = {a.arg for a in fn.args.posonlyargs + fn.args.args + fn.args.kwonlyargs}
            if fn.args.vararg:
                params.add(fn.args.vararg.arg)
            if fn.args.kwarg:
                params.add(fn.args.kwarg.arg)
            own = list(_shallow_fn(fn))
            stores = {}
            for n in own:
                if isinstance(n, ast.Name) and isinstance(n.ctx, (ast.Store, ast.Del)):
                    stores[n.id] = stores.get(n.id, 0) + 1
            # attribute chains assigned anywhere in the function (including nested functions, which may run in between)
            written = set()
            for n in ast.walk(fn):
                if isinstance(n, ast.Attribute) and isinstance(n.ctx, (ast.Store, ast.Del)):
                    c = _chain(n)
                    if c:
                        written.add(c)
            # every statement list of the function (its body and the blocks nested in it, not those of nested functions)
            blocks = []

            def collect(stmts):
                blocks.append(stmts)
                for st in stmts:
                    if isinstance(st, (ast.FunctionDef, ast.AsyncFunctionDef, ast.ClassDef)):
                        continue
                    for fld in ('body', 'orelse', 'finalbody'):
                        sub = getattr(st, fld, None)
                        if isinstance(sub, list) and sub and all(isinstance(x, ast.stmt) for x in sub):
                            collect(sub)
                    if isinstance(st, ast.Try):
                        for hd in st.handlers:
                            collect(hd.body)
            collect(fn.body)
            all_names = [n for n in ast.walk(fn) if isinstance(n, ast.Name)]
            cands = {}
            for blk in blocks:
                for i, st in enumerate(blk):
                    if not isinstance(st, ast.Assign) or len(st.targets) != 1:
                        continue
                    t, v = st.targets[0], st.value
                    pairs = []
                    if isinstance(t, ast.Name):
                        pairs = [(t, v)]
                    elif isinstance(t, ast.Tuple) and isinstance(v, ast.Tuple) and len(t.elts) == len(v.elts) and all(isinstance(x, ast.Name) for x in t.elts):
                        pairs = list(zip(t.elts, v.elts))
                    for tn, vv in pairs:
                        c = _chain(vv)
                        if not (isinstance(vv, ast.Attribute) and c and c[0] in params and len(c) >= 2):
                            continue
                        if stores.get(tn.id, 0) != 1 or tn.id in params or stores.get(c[0], 0):
                            continue
                        if any(w[:len(c)] == c or c[:len(w)] == w for w in written):
                            continue
                        if any(a_ in rebound for a_ in c[1:]):
                            continue
                        # every read of the name lies in the statements that follow the binding in its own block (so the binding has run, exactly once... per
                        # execution of that block: inside a loop the alias is re-bound to the same chain, which is still the same expression)
                        later = {id(n) for s2 in blk[i + 1:] for n in ast.walk(s2)}
                        reads = [n for n in all_names if n.id == tn.id and isinstance(n.ctx, ast.Load)]
                        nested_store = [n for d in ast.walk(fn) if d is not fn and isinstance(d, (ast.FunctionDef, ast.Lambda)) for n in ast.walk(d)
                                        if (isinstance(n, ast.Name) and n.id == tn.id and isinstance(n.ctx, ast.Store)) or (isinstance(n, ast.arg) and n.arg == tn.id)]
                        if nested_store or not all(id(n) in later for n in reads):
                            continue
                        cands[tn.id] = (st, vv)
            if not cands:
                continue

            class Sub(ast.NodeTransformer):
                def visit_Name(self, n):
                    if isinstance(n.ctx, ast.Load) and n.id in cands:
                        return ast.copy_location(copy.deepcopy(cands[n.id][1]), n)
                    return n

            def rebuild(stmts):
                new_body = []
                for st in stmts:
                    hit = [k for k, (s0, _v) in cands.items() if s0 is st]
                    if hit:
                        t, v = st.targets[0], st.value
                        if isinstance(t, ast.Name):
                            continue
                        keep = [(a, b) for a, b in zip(t.elts, v.elts) if a.id not in cands]
                        if not keep:
                            continue
                        if len(keep) == 1:
                            st2 = ast.Assign(targets=[keep[0][0]], value=Sub().visit(keep[0][1]))
                        else:
                            st2 = ast.Assign(targets=[ast.Tuple(elts=[a for a, _b in keep], ctx=ast.Store())], value=ast.Tuple(elts=[Sub().visit(b) for _a, b in keep], ctx=ast.Load()))
                        ast.copy_location(st2, st)
                        new_body.append(st2)
                        continue
                    if not isinstance(st, (ast.FunctionDef, ast.AsyncFunctionDef, ast.ClassDef)):
                        for fld in ('body', 'orelse', 'finalbody'):
                            sub = getattr(st, fld, None)
                            if isinstance(sub, list) and sub and all(isinstance(x, ast.stmt) for x in sub):
                                setattr(st, fld, rebuild(sub) or [ast.Pass()])
                        if isinstance(st, ast.Try):
                            for hd in st.handlers:
                                hd.body = rebuild(hd.body) or [ast.Pass()]
                    new_body.append(st)
                return new_body
            new_body = rebuild(fn.body)
            new_body = [Sub().visit(st) for st in new_body]
            fn.body = new_body or [ast.Pass()]
            ast.fix_missing_locations(fn)
            log.append(('%s.%s' % (m.name, fn.name), [], 'local aliases written out: %s' % ', '.join('%s = %s' % (k, ast.unparse(v)) for k, (_s, v) in sorted(cands.items()))))
    return log


def _shallow_fn(fn):
    """the nodes of fn's own body (not of functions or lambdas nested in it)"""
    todo = list(fn.body)
    while todo:
        n = todo.pop()
        yield n
        for ch in ast.iter_child_nodes(n):
            if isinstance(ch, (ast.FunctionDef, ast.AsyncFunctionDef, ast.Lambda, ast.ClassDef)):
                continue
            todo.append(ch)


# ----------------------------------------------------------------------------------------------- loops over a literal sequence

def unroll_literal_loops(modules, max_items=4):
    """`for q in (self.a, self.b): BODY` over a literal tuple/list of call-free expressions, where BODY neither rebinds q nor leaves the loop
    (break/continue/else) and q is not read after the loop: BODY[q := self.a]; BODY[q := self.b].  "Do the same for each of these two queues" then
    reads like the code that names them one after the other."""
    log = []

    def pure_item(e):
        return not any(isinstance(n, (ast.Call, ast.Await, ast.Yield, ast.YieldFrom, ast.NamedExpr, ast.Lambda)) for n in ast.walk(e))

    for m in modules.values():
        for fn in [n for n in ast.walk(m.tree) if isinstance(n, ast.FunctionDef)]:
            changed = []

            def rewrite(stmts, following):
                out = []
                for i, st in enumerate(stmts):
                    rest = stmts[i + 1:] + following
                    for fld in ('body', 'orelse', 'finalbody'):
                        sub = getattr(st, fld, None)
                        if isinstance(sub, list) and sub and not isinstance(st, (ast.FunctionDef, ast.ClassDef)):
                            # statements after a loop body may run again: a name read anywhere later (or in the loop itself) counts as "read after"
                            setattr(st, fld, rewrite(sub, rest + ([st] if isinstance(st, (ast.For, ast.While)) else [])))
                    if isinstance(st, ast.Try):
                        for hd in st.handlers:
                            hd.body = rewrite(hd.body, rest)
                    if isinstance(st, ast.For) and isinstance(st.target, ast.Name) and isinstance(st.iter, (ast.Tuple, ast.List)) and not st.orelse \
                            and 1 <= len(st.iter.elts) <= max_items and all(pure_item(e) for e in st.iter.elts):
                        v = st.target.id
                        body_nodes = [n for b in st.body for n in ast.walk(b)]
                        rebinds = any(isinstance(n, ast.Name) and n.id == v and isinstance(n.ctx, (ast.Store, ast.Del)) for n in body_nodes)
                        leaves = any(isinstance(n, (ast.Break, ast.Continue)) for n in body_nodes)       # (conservative: also those of inner loops)
                        closure = any(isinstance(n, (ast.FunctionDef, ast.Lambda)) for n in body_nodes)
                        read_after = any(isinstance(n, ast.Name) and n.id == v for s2 in rest if s2 is not st for n in ast.walk(s2))
                        if not (rebinds or leaves or closure or read_after):
                            for e in st.iter.elts:
                                class Sub(ast.NodeTransformer):
                                    def visit_Name(self, n, e=e):
                                        if n.id == v and isinstance(n.ctx, ast.Load):
                                            return ast.copy_location(copy.deepcopy(e), n)
                                        return n
                                for b in st.body:
                                    nb = Sub().visit(copy.deepcopy(b))
                                    out.append(nb)
                            changed.append('for %s in %s' % (v, ast.unparse(st.iter)))
                            continue
                    out.append(st)
                return out
            fn.body = rewrite(fn.body, [])
            if changed:
                ast.fix_missing_locations(fn)
                log.append(('%s.%s' % (m.name, fn.name), [], 'loop over a literal sequence unrolled: %s' % '; '.join(changed)))
    return log


# ----------------------------------------------------------------------------------------------- tail delegation to a fresh function

def inline_tail_delegations(modules, baseline=None):
    """`def deco(fn): return _fresh(fn, "CONST")` - a function whose whole body hands its own parameters and constants to a fresh module-level function (one that
    may define closures, which the statement inliner leaves alone) - becomes the body of that function with the arguments written in.  The fresh function is
    removed when nothing else refers to it."""
    baseline = baseline if baseline is not None else baseline_names()
    log = []
    for m in modules.values():
        fresh = {}
        for st in m.tree.body:
            if isinstance(st, ast.FunctionDef) and ('%s.%s' % (m.name, st.name)) not in baseline and not st.decorator_list:
                a = st.args
                if a.vararg or a.kwarg or a.kwonlyargs or a.defaults or a.posonlyargs:
                    continue
                params = [x.arg for x in a.args]
                stored = {n.id for n in ast.walk(st) if isinstance(n, ast.Name) and isinstance(n.ctx, (ast.Store, ast.Del))}
                inner_params = {x.arg for d in ast.walk(st) if d is not st and isinstance(d, (ast.FunctionDef, ast.Lambda)) for x in d.args.args + d.args.kwonlyargs}
                if set(params) & (stored | inner_params):
                    continue
                fresh[st.name] = (st, params)
        if not fresh:
            continue
        uses = {k: 0 for k in fresh}
        done = {k: 0 for k in fresh}
        for n in ast.walk(m.tree):
            if isinstance(n, ast.Name) and n.id in fresh and isinstance(n.ctx, ast.Load):
                uses[n.id] += 1
        for caller in [n for n in ast.walk(m.tree) if isinstance(n, ast.FunctionDef)]:
            body = list(caller.body)
            if body and isinstance(body[0], ast.Expr) and isinstance(body[0].value, ast.Constant) and isinstance(body[0].value.value, str):
                body = body[1:]
            if len(body) != 1 or not isinstance(body[0], ast.Return) or not isinstance(body[0].value, ast.Call):
                continue
            c = body[0].value
            if not (isinstance(c.func, ast.Name) and c.func.id in fresh) or c.keywords or caller.name == c.func.id:
                continue
            fdef, params = fresh[c.func.id]
            cparams = {x.arg for x in caller.args.posonlyargs + caller.args.args + caller.args.kwonlyargs}
            if len(c.args) != len(params) or not all(isinstance(x, ast.Constant) or (isinstance(x, ast.Name) and x.id in cparams) for x in c.args):
                continue
            mapping, ren = {}, {}
            for p, x in zip(params, c.args):
                if isinstance(x, ast.Constant):
                    mapping[p] = x
                elif x.id != p:
                    ren[p] = x.id
            new_body = [Rename(ren, mapping).visit(copy.deepcopy(x)) for x in fdef.body]
            if new_body and isinstance(new_body[0], ast.Expr) and isinstance(new_body[0].value, ast.Constant) and isinstance(new_body[0].value.value, str):
                new_body = new_body[1:]
            caller.body = new_body or [ast.Pass()]
            ast.fix_missing_locations(caller)
            done[c.func.id] += 1
        for k, (fdef, params) in fresh.items():
            if done[k] and done[k] == uses[k]:
                m.tree.body.remove(fdef)
                log.append(('%s.%s' % (m.name, k), ['<%d callers>' % done[k]], 'tail delegation written out'))
            elif done[k]:
                log.append(('%s.%s' % (m.name, k), [], 'tail delegation written out in %d of %d uses' % (done[k], uses[k])))
    return log
