"""Constant propagation of boolean (and None) locals along CFG paths, used to decide "first pass / later passes" protocols that code
expresses with a local flag (`if deferred: sleep() else: deferred = True`, `if skip_wait: skip_wait = False else: sleep()`, ...)
without depending on which flag, polarity or statement order the code uses.

must_atoms(): the elementary conditions that hold on every path to a node (tests that guard it, with `and`/`or`/`not` flattened and
single-definition locals expanded), in a canonical positive form."""
import ast

from .model import norm
from .util import expand_locals, guarded_by_edge, local_defs

UNKNOWN = object()

NEG = {'Eq': 'NotEq', 'NotEq': 'Eq', 'Lt': 'GtE', 'GtE': 'Lt', 'Gt': 'LtE', 'LtE': 'Gt', 'Is': 'IsNot', 'IsNot': 'Is', 'In': 'NotIn', 'NotIn': 'In'}
FLIP = {'Eq': 'Eq', 'NotEq': 'NotEq', 'Lt': 'Gt', 'Gt': 'Lt', 'LtE': 'GtE', 'GtE': 'LtE', 'Is': 'Is', 'IsNot': 'IsNot'}


def evaluate(e, env):
    """value of a test expression under env (name -> True/False/None; '=<expression text>' -> assumed value), or UNKNOWN"""
    if not isinstance(e, (ast.Constant, ast.Name)):
        k = '=' + norm(e)
        if k in env:
            return env[k]
        if isinstance(e, ast.Compare) and len(e.ops) == 1 and isinstance(e.ops[0], (ast.IsNot, ast.NotEq)):
            k = '=' + norm(ast.Compare(left=e.left, ops=[ast.Is() if isinstance(e.ops[0], ast.IsNot) else ast.Eq()], comparators=e.comparators))
            if k in env:
                return not env[k]
    if isinstance(e, ast.Constant):
        return e.value
    if isinstance(e, ast.Name):
        return env.get(e.id, UNKNOWN)
    if isinstance(e, ast.Attribute) and e.attr.isupper() and not any(isinstance(n, ast.Call) for n in ast.walk(e)):
        # an enumeration member / class constant (return_status.IGNORED): a symbolic constant, equal only to itself
        return ('const', e.attr)
    if isinstance(e, ast.UnaryOp) and isinstance(e.op, ast.Not):
        v = evaluate(e.operand, env)
        return UNKNOWN if v is UNKNOWN else (not v)
    if isinstance(e, ast.BoolOp):
        vals = [evaluate(v, env) for v in e.values]
        if isinstance(e.op, ast.And):
            if any(v is not UNKNOWN and not v for v in vals):
                return False
            if all(v is not UNKNOWN for v in vals):
                return vals[-1]
            return UNKNOWN
        if any(v is not UNKNOWN and v for v in vals):
            return True
        if all(v is not UNKNOWN for v in vals):
            return vals[-1]
        return UNKNOWN
    if isinstance(e, ast.Compare) and len(e.ops) == 1:
        a = evaluate(e.left, env)
        b = evaluate(e.comparators[0], env)
        if a is UNKNOWN or b is UNKNOWN:
            return UNKNOWN
        op = e.ops[0]
        if isinstance(op, (ast.Is, ast.Eq)):
            return a == b
        if isinstance(op, (ast.IsNot, ast.NotEq)):
            return a != b
    return UNKNOWN


def _refine(e, pol, env, watch):
    """the environments that taking the `pol` side of test e can leave for the watched expressions (a disjunction is split into its cases)"""
    if isinstance(e, ast.UnaryOp) and isinstance(e.op, ast.Not):
        return _refine(e.operand, not pol, env, watch)
    if isinstance(e, ast.BoolOp):
        conj = (isinstance(e.op, ast.And) and pol) or (isinstance(e.op, ast.Or) and not pol)
        if conj:
            envs = [env]
            for v in e.values:
                envs = [e3 for e2 in envs for e3 in _refine(v, pol, e2, watch)]
            return envs
        # disjunction: the first operand decides, or it does not and the rest decides (short-circuit order)
        first, rest = e.values[0], e.values[1:]
        out = list(_refine(first, pol, env, watch))
        if rest:
            restexpr = rest[0] if len(rest) == 1 else ast.BoolOp(op=e.op, values=rest)
            for e2 in _refine(first, not pol, env, watch):
                out.extend(_refine(restexpr, pol, e2, watch))
        return out
    env = dict(env)
    if isinstance(e, ast.Compare) and len(e.ops) == 1 and isinstance(e.comparators[0], ast.Constant) and isinstance(e.comparators[0].value, bool):
        k = norm(e.left)
        if k in watch:
            c = e.comparators[0].value
            if isinstance(e.ops[0], (ast.Is, ast.Eq)):
                env['=' + k] = c if pol else (not c)
            elif isinstance(e.ops[0], (ast.IsNot, ast.NotEq)):
                env['=' + k] = (not c) if pol else c
        return [env]
    if isinstance(e, ast.Compare) and len(e.ops) == 1 and isinstance(e.ops[0], (ast.IsNot, ast.NotEq)):
        # `a is not b` is `not (a is b)`: one key per relation
        pos = ast.Compare(left=e.left, ops=[ast.Is() if isinstance(e.ops[0], ast.IsNot) else ast.Eq()], comparators=e.comparators)
        e, pol = pos, not pol
    k = norm(e)
    if k in watch:
        if ('=' + k) in env and env['=' + k] != pol:
            return []           # contradicts what is already known on this path
        env['=' + k] = pol
    return [env]


def simulate(g, start, stops, env, track=(), watch=(), fnode=None, params=()):
    """explore the CFG from `start` with constant propagation of the locals in env; stop at nodes in `stops` (not expanded).
    Returns [(stop node, env dict, frozenset of tracked nodes visited)]; a (node, env, visited) state is expanded once."""
    out = []
    seen = set()
    todo = [(start, tuple(sorted(env.items(), key=lambda kv: kv[0])), frozenset())]
    while todo:
        n, envt, vis = todo.pop()
        key = (n.id, envt, vis)
        if key in seen:
            continue
        seen.add(key)
        e = dict(envt)
        if n in track:
            vis = vis | {n}
        if n in stops and not (n is start and not out and len(seen) == 1):
            out.append((n, e, vis))
            continue
        # transfer
        if n.kind == 'stmt' and isinstance(n.ast, (ast.Assign, ast.AugAssign, ast.AnnAssign)):
            tg = n.ast.targets if isinstance(n.ast, ast.Assign) else [n.ast.target]
            pairs = []
            for t in tg:
                if isinstance(t, ast.Tuple) and isinstance(getattr(n.ast, 'value', None), ast.Tuple) and len(t.elts) == len(n.ast.value.elts):
                    pairs.extend(zip(t.elts, n.ast.value.elts))
                else:
                    pairs.append((t, getattr(n.ast, 'value', None) if isinstance(n.ast, ast.Assign) else None))
            new = dict(e)
            for t, v in pairs:
                dt = norm(t) if isinstance(t, ast.Attribute) else None
                if dt is not None and (dt in watch or ('=' + dt) in new):
                    val = evaluate(v, e) if v is not None else UNKNOWN
                    if isinstance(val, bool):
                        new['=' + dt] = val
                    else:
                        new.pop('=' + dt, None)
                for nm in ast.walk(t):
                    if isinstance(nm, ast.Name) and isinstance(nm.ctx, ast.Store):
                        # what was known about expressions over this name is void
                        import re as _re
                        for k_ in [k_ for k_ in new if k_.startswith('=') and _re.search(r'(?<![\w.])' + _re.escape(nm.id) + r'(?!\w)', k_[1:])]:
                            del new[k_]
                        val = evaluate(v, e) if (v is not None and isinstance(t, ast.Name)) else UNKNOWN
                        if val is UNKNOWN or not (val is None or isinstance(val, bool) or (isinstance(val, tuple) and val and val[0] == 'const')):
                            new.pop(nm.id, None)
                        else:
                            new[nm.id] = val
            e = new
        elif n.kind == 'for':
            for nm in ast.walk(n.stmt.target):
                if isinstance(nm, ast.Name):
                    e.pop(nm.id, None)
        succ = list(g.succ[n])
        test_ast = n.ast
        if n.kind == 'test' and fnode is not None:
            # a boolean local that stands for an expression over the watched observations (`keep_running = a and b and c`) is tested as that expression
            test_ast = expand_locals(n.ast, fnode, params=params, observers=True)
        if n.kind == 'test':
            v = evaluate(test_ast, e)
            if v is not UNKNOWN:
                lab = 'true' if v else 'false'
                succ = [(m, l) for m, l in succ if l == lab or l not in ('true', 'false')]
        for m, l in succ:
            if l == 'exc':
                continue
            variants = [e]
            if n.kind == 'test' and watch and l in ('true', 'false'):
                variants = _refine(test_ast, l == 'true', e, watch)
            for e2 in variants:
                todo.append((m, tuple(sorted(e2.items(), key=lambda kv: kv[0])), vis))
    return out


def _atoms(e, pol, out):
    if isinstance(e, ast.UnaryOp) and isinstance(e.op, ast.Not):
        return _atoms(e.operand, not pol, out)
    if isinstance(e, ast.BoolOp):
        if (isinstance(e.op, ast.And) and pol) or (isinstance(e.op, ast.Or) and not pol):
            for v in e.values:
                _atoms(v, pol, out)
        return
    if isinstance(e, ast.Compare) and len(e.ops) == 1:
        op = type(e.ops[0]).__name__
        if not pol:
            op = NEG.get(op)
        if op is not None:
            out.add((norm(e.left), op, norm(e.comparators[0])))
            if op in FLIP:
                out.add((norm(e.comparators[0]), FLIP[op], norm(e.left)))
        return
    out.add((norm(e), 'Truthy' if pol else 'Falsy', ''))


_depth = [0]


def must_atoms(g, node, fnode, params=()):
    """canonical elementary conditions that hold whenever `node` executes (from the tests that guard it on every path).  A local defined by an
    observer call (`has_room = q.full() is False`) stands for that observation only if nothing that can change it (another call) lies between
    the definition and the test"""
    out = set()
    from .hsmsites import reaching_defs
    rd, valmap = reaching_defs(g, params)
    byid = {n_.id: n_ for n_ in g.nodes}

    def by_reaching_def(test_ast, x):
        """a local with several definitions in the function but exactly one that reaches this test stands for that definition's (call-free) expression, provided the
        names it mentions still mean the same at the test"""
        import copy

        class R(ast.NodeTransformer):
            def visit_Name(self, n_):
                if not isinstance(n_.ctx, ast.Load) or n_.id in params:
                    return n_
                ds = rd[x].get(n_.id, set())
                if len(ds) != 1:
                    return n_
                d = next(iter(ds))
                v = valmap.get(d)
                dn = byid.get(d[0]) if d[0] != 'param' else None
                if v is None or dn is None or not isinstance(v, ast.AST) or any(isinstance(y, ast.Call) for y in ast.walk(v)):
                    return n_
                if not (isinstance(v, (ast.Compare, ast.BoolOp)) or (isinstance(v, ast.UnaryOp) and isinstance(v.op, ast.Not))):
                    return n_          # only locals that stand for a condition
                if len(local_defs(fnode).get(n_.id, [])) <= 1:
                    return n_          # single-definition locals are expanded by expand_locals below
                for y in ast.walk(v):
                    if isinstance(y, ast.Name) and y.id not in params and rd[dn].get(y.id, set()) != rd[x].get(y.id, set()):
                        return n_
                return copy.deepcopy(v)
        return R().visit(copy.deepcopy(test_ast))

    for x in g.nodes:
        if x.kind != 'test':
            continue

        def fresh(name, d, x=x):
            dn = [m for m in g.nodes if m.kind == 'stmt' and isinstance(m.ast, (ast.Assign, ast.AnnAssign)) and getattr(m.ast, 'value', None) is not None
                  and any(y is d for y in ast.walk(m.ast.value))]
            if len(dn) != 1 or not g.dominates(dn[0], x):
                return False
            # the nodes on the segments  definition -> test  that do not pass through the definition again (loops re-execute it)
            fwd = g.reachable([m_ for m_, _l in g.succ[dn[0]] if m_ is not dn[0]], avoiding=[dn[0]])
            bwd = g.reachable([m_ for m_, _l in g.pred[x] if m_ is not dn[0]], avoiding=[dn[0]], forward=False) if x is not dn[0] else set()
            between = (fwd & bwd) - {dn[0], x}
            for m in between:
                if m.kind in ('entry', 'exit', 'xexit', 'def'):
                    continue
                if m.kind == 'with':
                    return False
                for c in m.calls():
                    if not (isinstance(c.func, ast.Name) and c.func.id in ('len', 'isinstance', 'bool', 'int', 'str', 'type', 'id')):
                        return False
            return True
        for lab, pol in (('true', True), ('false', False)):
            if guarded_by_edge(g, node, x, lab):
                _atoms(expand_locals(by_reaching_def(x.ast, x), fnode, params=params, observers=True, fresh=fresh), pol, out)
                # a flag that starts False and is set by one conditional definition (`wanted = False` ... `if G: wanted = E` ... `if wanted:`): being true at the test
                # means that definition was taken - its guards held and E was true there
                t_ast, neg = x.ast, False
                while isinstance(t_ast, ast.UnaryOp) and isinstance(t_ast.op, ast.Not):
                    t_ast, neg = t_ast.operand, not neg
                if isinstance(t_ast, ast.Name) and t_ast.id not in params and (pol != neg) and _depth[0] < 3:
                    ds = list(rd[x].get(t_ast.id, set()))
                    vals = [(d, valmap.get(d)) for d in ds]
                    falsy = [d for d, v in vals if isinstance(v, ast.Constant) and not v.value]
                    live = [(d, v) for d, v in vals if d not in falsy]
                    if falsy and len(live) == 1 and isinstance(live[0][1], (ast.Compare, ast.BoolOp, ast.UnaryOp)) and live[0][0][0] != 'param':
                        dn = byid.get(live[0][0][0])
                        v = live[0][1]
                        if dn is not None and not any(isinstance(y, ast.Call) for y in ast.walk(v)):
                            # nothing that can change what E looked at lies between the definition and the test
                            fwd = g.reachable([m_ for m_, _l in g.succ[dn]], avoiding=[dn])
                            bwd = g.reachable([m_ for m_, _l in g.pred[x]], avoiding=[dn], forward=False)
                            between = (fwd & bwd) - {dn, x}
                            quiet = all(m_.kind in ('entry', 'exit', 'xexit', 'def') or not any(True for _c in m_.calls()) for m_ in between)
                            if quiet:
                                _atoms(expand_locals(v, fnode, params=params, observers=True, fresh=fresh), True, out)
                                _depth[0] += 1
                                try:
                                    out |= must_atoms(g, dn, fnode, params=params)
                                finally:
                                    _depth[0] -= 1
    return out


def reachable_under(g, node, facts, env=None):
    """can `node` execute when the expressions in `facts` ({expression text: bool}) have the given values at every test?  (the caller makes sure
    nothing in the function assigns them)"""
    e = dict(env or {})
    for k, v in facts.items():
        e['=' + k] = v
    if node is g.entry:
        return True
    return any(stop is node for stop, _env, _vis in simulate(g, g.entry, {node}, e))


def values_at(g, node, watch, env=None, fnode=None, params=()):
    """the valuations of the watched boolean expressions (attribute paths, call texts) with which `node` can be reached: a list of dicts
    {expression text: True/False} (absent = unknown) - path-sensitive constant propagation through tests, assignments, and/or/not"""
    out = []
    if node is g.entry:
        return [{}]
    for stop, e, _vis in simulate(g, g.entry, {node}, dict(env or {}), watch=set(watch), fnode=fnode, params=params):
        if stop is node:
            out.append({k[1:]: v for k, v in e.items() if k.startswith('=')})
    return out
