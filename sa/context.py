"""Shared, lazily built analyses for one model (call graph, effects)."""
from .callgraph import CallGraph
from .effects import Effects

_cache = {}


def callgraph(model):
    k = ('cg', id(model))
    if k not in _cache:
        _cache[k] = CallGraph(model)
    return _cache[k]


def effects(model):
    k = ('fx', id(model))
    if k not in _cache:
        _cache[k] = Effects(model, callgraph(model))
    return _cache[k]
