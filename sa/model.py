"""Parse and index the miros package from the working tree (nothing is imported or executed).

The model gives every rule the same resolved view of the program:
  * modules   : name -> Module(path, src, tree)
  * classes   : name -> ClassInfo (bases resolved inside the package, MRO, subclasses)
  * funcs     : qualified name -> Func (module.Class.method / module.outer.inner)
  * module-level bindings (singleton factories, namedtuples, constants)
"""
import ast
import os
import hashlib

PKG = 'miros'


class AnalysisError(Exception):
    """The analysis cannot give a verdict (vanished anchor, unknown idiom, below floor).
    Turned into exit code 2 by the driver; never a VIOLATION, never a silent pass."""


def repo_root():
    return os.environ.get('MIROS_VERIF_REPO', '/repo')


def norm(node, limit=110):
    """Normalised text of a construct: used in finding keys instead of line numbers."""
    try:
        t = ast.unparse(node)
    except Exception:  # pragma: no cover
        t = type(node).__name__
    t = ' '.join(t.split())
    return t if len(t) <= limit else t[:limit - 3] + '...'


class Module:
    def __init__(self, name, path, src):
        self.name = name
        self.path = path
        self.src = src
        self.tree = ast.parse(src, filename=path)
        self.lines = src.splitlines()


class Func:
    def __init__(self, qualname, module, node, cls=None, parent=None):
        self.qualname = qualname
        self.module = module
        self.node = node
        self.cls = cls            # ClassInfo when defined directly in a class body
        self.parent = parent      # enclosing Func for nested definitions
        self.name = node.name
        a = node.args
        self.params = [x.arg for x in a.posonlyargs + a.args]
        self.vararg = a.vararg.arg if a.vararg else None
        self.kwarg = a.kwarg.arg if a.kwarg else None
        self.kwonly = [x.arg for x in a.kwonlyargs]
        self.decorators = list(node.decorator_list)
        self.nested = {}          # name -> Func

    @property
    def owner_class(self):
        """The class whose instance `self` denotes inside this function (through nesting)."""
        f = self
        while f is not None:
            if f.cls is not None:
                return f.cls
            f = f.parent
        return None

    @property
    def lineno(self):
        return self.node.lineno

    def site(self, node=None):
        n = node if node is not None else self.node
        return '%s:%d' % (os.path.relpath(self.module.path, repo_root()), getattr(n, 'lineno', self.node.lineno))

    def __repr__(self):
        return '<Func %s>' % self.qualname


class ClassInfo:
    def __init__(self, name, module, node):
        self.name = name
        self.module = module
        self.node = node
        self.base_exprs = list(node.bases)
        self.base_names = []
        for b in node.bases:
            if isinstance(b, ast.Name):
                self.base_names.append(b.id)
            elif isinstance(b, ast.Attribute):
                self.base_names.append(b.attr)
            else:
                self.base_names.append(norm(b))
        self.methods = {}         # name -> Func
        self.consts = {}          # name -> ast value
        self.nested_classes = {}
        self.qualname = module.name + '.' + name

    def __repr__(self):
        return '<Class %s>' % self.name


def walk_shallow(node):
    """ast.walk that does not descend into nested function/class/lambda bodies.
    The root itself may be a def: its body is walked."""
    todo = list(ast.iter_child_nodes(node))
    while todo:
        n = todo.pop()
        yield n
        if isinstance(n, (ast.FunctionDef, ast.AsyncFunctionDef, ast.ClassDef, ast.Lambda)):
            continue
        todo.extend(ast.iter_child_nodes(n))


def calls_in(node, include_root=True):
    """Call nodes under `node` without descending into nested defs; in source order."""
    out = []
    if include_root and isinstance(node, ast.Call):
        out.append(node)
    for n in walk_shallow(node):
        if isinstance(n, ast.Call):
            out.append(n)
    out.sort(key=lambda c: (c.lineno, c.col_offset))
    return out


def dotted(expr):
    """'self.rtc.spy' for an attribute chain rooted at a Name, else None."""
    parts = []
    e = expr
    while isinstance(e, ast.Attribute):
        parts.append(e.attr)
        e = e.value
    if isinstance(e, ast.Name):
        parts.append(e.id)
        return '.'.join(reversed(parts))
    return None


class Model:
    def __init__(self, root=None):
        self.root = root or repo_root()
        self.pkgdir = os.path.join(self.root, PKG)
        if not os.path.isdir(self.pkgdir):
            raise AnalysisError('package directory %s not found' % self.pkgdir)
        self.modules = {}
        self.classes = {}
        self.funcs = {}
        self.module_bindings = {}   # (module, name) -> ast value expr
        self.imports = {}           # (module, local name) -> (source module, original name)
        self.digest = hashlib.sha256()
        names = sorted(f for f in os.listdir(self.pkgdir) if f.endswith('.py'))
        if not names:
            raise AnalysisError('no python files in %s' % self.pkgdir)
        for fname in names:
            path = os.path.join(self.pkgdir, fname)
            with open(path, encoding='utf-8') as fh:
                src = fh.read()
            self.digest.update(fname.encode() + b'\0' + src.encode())
            try:
                m = Module(fname[:-3], path, src)
            except SyntaxError as ex:
                raise AnalysisError('cannot parse %s: %s' % (path, ex))
            self.modules[m.name] = m
        # fresh private helpers (not in the baseline inventory) are inlined into their callers before anything is indexed
        self.inlined = []
        if not os.environ.get('MIROS_VERIF_NO_INLINE'):
            from .normalise import inline_fresh_helpers, specialise_fresh_factories, nest_lifted_closures, split_conditional_expressions
            from .normalise import strip_diagnostics, strip_annotations
            na = strip_annotations(self.modules)
            from .normalise import canonical_iter_sentinel, canonical_index_loops
            self.inlined += canonical_iter_sentinel(self.modules)
            self.inlined += canonical_index_loops(self.modules)
            from .normalise import propagate_fresh_constants, specialise_fresh_optional_params
            self.inlined += propagate_fresh_constants(self.modules)
            self.inlined += specialise_fresh_optional_params(self.modules)
            from .normalise import fold_fresh_constant_attributes
            self.inlined += fold_fresh_constant_attributes(self.modules)
            from .normalise import canonical_string_formatting
            nf = canonical_string_formatting(self.modules)
            split_conditional_expressions(self.modules)
            nd = strip_diagnostics(self.modules)
            from .normalise import inline_tail_delegations
            self.inlined += specialise_fresh_factories(self.modules) + inline_tail_delegations(self.modules) + nest_lifted_closures(self.modules) + inline_fresh_helpers(self.modules)
            from .normalise import thread_boolean_results
            self.inlined += thread_boolean_results(self.modules)
            from .normalise import propagate_attribute_aliases, unroll_literal_loops, strip_fresh_write_only_state
            self.inlined += strip_fresh_write_only_state(self.modules)
            self.inlined += unroll_literal_loops(self.modules)
            from .normalise import canonical_getattr, canonical_loop_guards
            self.inlined += canonical_getattr(self.modules)
            self.inlined += strip_fresh_write_only_state(self.modules)         # (again: counters written through setattr(self, 'name', ..) are visible only now)
            from .normalise import strip_write_only_locals
            self.inlined += strip_write_only_locals(self.modules)
            self.inlined += canonical_loop_guards(self.modules)
            from .normalise import canonical_index_probe
            self.inlined += canonical_index_probe(self.modules)
            from .normalise import canonical_get_loops
            self.inlined += canonical_get_loops(self.modules)
            from .normalise import canonical_assert
            self.inlined += canonical_assert(self.modules)
            from .normalise import simplify_bool_comparisons
            simplify_bool_comparisons(self.modules)
            from .normalise import unwrap_quiet_try
            self.inlined += unwrap_quiet_try(self.modules)
            self.inlined += propagate_attribute_aliases(self.modules)
            if nf:
                self.inlined.append(('<package>', [], '%d f-strings / %%-formats written as str.format' % nf))
            if na:
                self.inlined.append(('<package>', [], '%d type annotations dropped' % na))
            if nd:
                self.inlined.append(('<package>', [], '%d logging statements with effect-free arguments dropped' % nd))
            split_conditional_expressions(self.modules)
        for m in self.modules.values():
            self._index_module(m)
        self._subclasses = None

    # ------------------------------------------------------------------ indexing
    def _index_module(self, m):
        for st in m.tree.body:
            self._index_stmt(m, st, prefix=m.name, cls=None, parent=None)
        for st in ast.walk(m.tree):
            if isinstance(st, ast.ImportFrom) and st.module:
                for al in st.names:
                    self.imports[(m.name, al.asname or al.name)] = (st.module, al.name)
            elif isinstance(st, ast.Import):
                for al in st.names:
                    self.imports[(m.name, al.asname or al.name.split('.')[0])] = (al.name, None)

    def _index_stmt(self, m, st, prefix, cls, parent):
        if isinstance(st, (ast.FunctionDef, ast.AsyncFunctionDef)):
            q = prefix + '.' + st.name
            f = Func(q, m, st, cls=cls, parent=parent)
            # a later definition with the same qualified name replaces the earlier one (python semantics)
            self.funcs[q] = f
            if cls is not None:
                cls.methods[st.name] = f
            if parent is not None:
                parent.nested[st.name] = f
            for sub in ast.walk(st):
                pass
            self._index_body(m, st.body, q, None, f)
        elif isinstance(st, ast.ClassDef):
            c = ClassInfo(st.name, m, st)
            if cls is None and parent is None:
                self.classes[st.name] = c
            elif cls is not None:
                cls.nested_classes[st.name] = c
                self.classes.setdefault(cls.name + '.' + st.name, c)
            q = prefix + '.' + st.name
            for s2 in st.body:
                if isinstance(s2, ast.Assign) and len(s2.targets) == 1 and isinstance(s2.targets[0], ast.Name):
                    c.consts[s2.targets[0].id] = s2.value
                self._index_stmt(m, s2, q, c, None)
        elif isinstance(st, ast.Assign) and cls is None and parent is None:
            for t in st.targets:
                if isinstance(t, ast.Name):
                    self.module_bindings[(m.name, t.id)] = st.value
        elif isinstance(st, (ast.If, ast.Try, ast.With)) and cls is None and parent is None:
            # module-level conditional definitions (event.py: `if signals_exist is False: signals = Signal()`)
            for s2 in ast.iter_child_nodes(st):
                if isinstance(s2, ast.stmt):
                    self._index_stmt(m, s2, prefix, cls, parent)

    def _index_body(self, m, body, prefix, cls, parent):
        for st in body:
            for n in self._defs_in(st):
                self._index_stmt(m, n, prefix, cls, parent)

    def _defs_in(self, st):
        """function/class definitions directly or conditionally nested in a statement of a function body"""
        if isinstance(st, (ast.FunctionDef, ast.AsyncFunctionDef, ast.ClassDef)):
            yield st
            return
        for ch in ast.iter_child_nodes(st):
            if isinstance(ch, ast.stmt):
                yield from self._defs_in(ch)
            elif isinstance(ch, ast.ExceptHandler):
                for s2 in ch.body:
                    yield from self._defs_in(s2)

    # ------------------------------------------------------------------ queries
    def func(self, qualname, required=True):
        f = self.funcs.get(qualname)
        if f is None and required:
            raise AnalysisError('anchor function %s not found in %s' % (qualname, self.pkgdir))
        return f

    def cls(self, name, required=True):
        c = self.classes.get(name)
        if c is None and required:
            raise AnalysisError('anchor class %s not found in %s' % (name, self.pkgdir))
        return c

    def mro(self, c):
        """C3 linearisation restricted to classes of the package; external bases are leaves."""
        if isinstance(c, str):
            c = self.cls(c)

        def lin(k, seen):
            if k.name in seen:
                raise AnalysisError('inheritance cycle at %s' % k.name)
            bases = [self.classes[b] for b in k.base_names if b in self.classes]
            seqs = [lin(b, seen | {k.name}) for b in bases] + [list(bases)]
            res = [k]
            seqs = [s for s in seqs if s]
            while seqs:
                for s in seqs:
                    h = s[0]
                    if not any(h in t[1:] for t in seqs):
                        break
                else:
                    raise AnalysisError('inconsistent MRO for %s' % k.name)
                res.append(h)
                seqs = [[x for x in s if x is not h] for s in seqs]
                seqs = [s for s in seqs if s]
            return res
        return lin(c, frozenset())

    def subclasses(self, c):
        if isinstance(c, str):
            c = self.cls(c)
        if self._subclasses is None:
            self._subclasses = {}
            for k in self.classes.values():
                for a in self.mro(k)[1:]:
                    self._subclasses.setdefault(a.name, []).append(k)
        return list(self._subclasses.get(c.name, []))

    def lookup_method(self, c, name, after=None):
        """First definition of `name` in the MRO of c (after class `after` if given: super())."""
        m = self.mro(c)
        if after is not None:
            idx = [k.name for k in m].index(after.name)
            m = m[idx + 1:]
        for k in m:
            if name in k.methods:
                return k.methods[name]
        return None

    def method_impls(self, c, name):
        """Every implementation `self.name` may denote when self is an instance of c or of a
        package subclass of c (class-hierarchy analysis)."""
        out = []
        for k in [c] + self.subclasses(c):
            f = self.lookup_method(k, name)
            if f is not None and f not in out:
                out.append(f)
        return out

    def all_funcs(self):
        return list(self.funcs.values())

    def funcs_of_module(self, modname):
        return [f for f in self.funcs.values() if f.module.name == modname]

    def singleton_factories(self):
        """module-level `X = SingletonDecorator(Klass)` -> {factory name: class name}"""
        out = {}
        for (mod, name), val in self.module_bindings.items():
            if isinstance(val, ast.Call) and isinstance(val.func, ast.Name) and val.func.id == 'SingletonDecorator' \
                    and len(val.args) == 1 and isinstance(val.args[0], ast.Name):
                out[name] = val.args[0].id
        return out

    def const_int(self, cls_name, const):
        c = self.cls(cls_name)
        for k in self.mro(c):
            v = k.consts.get(const)
            if v is not None:
                if isinstance(v, ast.Constant) and isinstance(v.value, int):
                    return v.value
                return None
        return None

    def stats(self):
        return {'files': len(self.modules), 'functions': len(self.funcs), 'classes': len(self.classes),
                'lines': sum(len(m.lines) for m in self.modules.values()),
                'digest': self.digest.hexdigest()[:16]}
