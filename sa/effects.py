"""Attribute-path write sets of functions, transitive through calls on the same receiver.

A write is: an assignment / augmented assignment / del whose target is an attribute or subscript chain rooted at a
name, or a call of a mutating method on such a chain.  Paths are reported relative to the root variable, subscripts
dropped: `self.rtc.spy.append(x)` -> ('self', 'rtc.spy').  Locals are not effects.
"""
import ast

from .model import walk_shallow, dotted
from .callgraph import HANDLER, CALLBACK

MUTATORS = {'append', 'appendleft', 'extend', 'extendleft', 'clear', 'pop', 'popleft', 'rotate', 'put', 'put_nowait',
            'get_nowait', 'set', 'task_done', 'update', 'setdefault', 'remove', 'insert', 'sort', 'reverse', 'add',
            'discard', 'popitem', 'start', 'join', 'acquire', 'release', 'wait', 'get'}
# `get` mutates a Queue but not a dict: decided by the receiver's inferred type when known
AMBIGUOUS = {'get': {'Queue', 'PriorityQueue', 'LockingDeque'}, 'wait': {'LockingDeque', 'ThreadEvent', 'SourceThreadEvent'},
             'set': {'ThreadEvent', 'SourceThreadEvent'}, 'start': {'Thread', 'ActiveFabricSource', 'InstrumenationWriterClass'},
             'join': {'Thread'}}


def chain_root(e):
    """(root name, path) of an attribute/subscript chain; path drops subscripts"""
    parts = []
    while True:
        if isinstance(e, ast.Attribute):
            parts.append(e.attr)
            e = e.value
        elif isinstance(e, ast.Subscript):
            e = e.value
        elif isinstance(e, ast.Call) and isinstance(e.func, ast.Attribute) and e.func.attr in ('copy',):
            return None
        else:
            break
    if isinstance(e, ast.Name):
        return e.id, '.'.join(reversed(parts))
    return None


class Effects:
    def __init__(self, model, cg):
        self.m = model
        self.cg = cg
        self._own = {}
        self._trans = {}

    def own_writes(self, f, skip_calls=()):
        """[(root, path, node, how)] written directly by statements of f (not through calls of package functions)"""
        key = (f, tuple(id(c) for c in skip_calls))
        if key in self._own:
            return self._own[key]
        out = []
        rv = self.cg.receiver_var(f)
        # locals that are plain aliases of a receiver field (x = self.full.spy): effects on x are effects on that field
        alias = {}
        multi = set()
        for n in walk_shallow(f.node):
            if not isinstance(n, ast.Assign) or len(n.targets) != 1:
                continue
            tg, vv = n.targets[0], n.value
            pairs = list(zip(tg.elts, vv.elts)) if isinstance(tg, ast.Tuple) and isinstance(vv, ast.Tuple) and len(tg.elts) == len(vv.elts) else [(tg, vv)]
            for t_, v_ in pairs:
                if not isinstance(t_, ast.Name):
                    continue
                nm = t_.id
                cr = chain_root(v_) if isinstance(v_, (ast.Attribute, ast.Subscript)) else None
                if cr and rv and cr[0] == rv and cr[1] and nm not in alias and nm not in multi:
                    alias[nm] = cr[1]
                else:
                    multi.add(nm)
                    alias.pop(nm, None)
        self._alias = getattr(self, '_alias', {})
        self._alias[f] = alias
        for n in walk_shallow(f.node):
            if isinstance(n, (ast.Assign, ast.AugAssign, ast.AnnAssign, ast.Delete)):
                if isinstance(n, ast.Assign):
                    tgts = n.targets
                elif isinstance(n, ast.Delete):
                    tgts = n.targets
                else:
                    tgts = [n.target]
                flat = []
                for t in tgts:
                    if isinstance(t, (ast.Tuple, ast.List)):
                        flat.extend(t.elts)
                    else:
                        flat.append(t)
                for t in flat:
                    if isinstance(t, (ast.Attribute, ast.Subscript)):
                        cr = chain_root(t)
                        if cr and cr[0] in alias:
                            cr = (rv, alias[cr[0]] + (('.' + cr[1]) if cr[1] else ''))
                        if cr and cr[1] != '' or (cr and isinstance(t, ast.Subscript)):
                            out.append((cr[0], cr[1], n, 'store'))
            elif isinstance(n, ast.Call) and isinstance(n.func, ast.Attribute) and n.func.attr in MUTATORS:
                if any(n is s for s in skip_calls):
                    continue
                cr = chain_root(n.func.value)
                if cr is None:
                    continue
                if cr[0] in alias:
                    cr = (rv, alias[cr[0]] + (('.' + cr[1]) if cr[1] else ''))
                meth = n.func.attr
                if meth in AMBIGUOUS:
                    tys = None
                    if rv and cr[0] == rv and cr[1] and '.' not in cr[1]:
                        tys = set()
                        for k in self.cg.self_class_candidates(f):
                            tys |= self.cg.types_of_field(k, cr[1])
                    if not tys or not (tys & AMBIGUOUS[meth]):
                        if tys:
                            continue
                        # unknown type: `get`/`wait`/`set` on an unknown object is not counted as a write of self
                        continue
                if cr[1] == '' and cr[0] != rv:
                    # method call on a bare local (q.append): an effect on whatever the local aliases
                    out.append((cr[0], '', n, 'call:' + meth))
                else:
                    out.append((cr[0], cr[1], n, 'call:' + meth))
        self._own[key] = out
        return out

    def writes(self, f, _stack=None):
        """transitive write paths on f's receiver: set of (path, origin Func, node); other roots are reported as ('<name>', ...)"""
        if f in self._trans:
            return self._trans[f]
        _stack = _stack or []
        if f in _stack:
            return set()
        _stack = _stack + [f]
        rv = self.cg.receiver_var(f)
        out = set()
        for root, path, node, how in self.own_writes(f):
            if rv and root == rv:
                out.add((path, f.qualname, getattr(node, 'lineno', 0), how))
            else:
                out.add(('<%s>%s' % (root, ('.' + path) if path else ''), f.qualname, getattr(node, 'lineno', 0), how))
        for t, c, how in self.cg.edges.get(f, []):
            if isinstance(t, str):
                out.add(('<%s>' % t.strip('<>'), f.qualname, getattr(c, 'lineno', 0), 'external'))
                continue
            if how in ('self', 'super', 'class', 'wrapped'):
                for w in self.writes(t, _stack):
                    out.add(w)
            elif how == 'nested':
                for w in self.writes(t, _stack):
                    out.add(w)
        self._trans[f] = out
        return out
