"""Content ghosts on top of the buffer analysis (the "thorough" layer of C01/C03):

  K(buf)   content frontier: slots 0..K of the path buffer hold the 0-th..K-th ancestor of the current target T
  d(v)     for a handler-valued variable v (and for the cursor temp.fun) that is known to be an ancestor of T: its depth,
           i.e. v == A(T, d(v)); K and every d are zone variables, so relations like d(cursor) == ip + 1, K == ip are found
           by the same fixpoint that proves the index obligations.

Handlers are modelled by the protocol H1-H3: x(self, SUPER|EMPTY) moves the cursor to parent(x); an INIT/USER answer of TRAN
re-bases everything on the new target (cursor = T, d = 0, K = -1); any other handler call leaves the cursor unknown.

With track_source=True (dispatch) a second chain is tracked the same way - the *active* chain of the chart at the start of the step:
  e(v)     for a handler-valued variable v known to be an ancestor of the current state C: v == A(C, e(v))  (zone variables E:...)
  NX       the number of EXIT calls made so far in this step;  KS = e(S), the depth of the state that answered the event with TRAN
  Wm, Wq   the witness of the common ancestor: the most recent identity/equality test that came out true between a state of the
           active chain (depth Wm) and an ancestor of the target (depth Wq); for S is T the witness is the pair of their parents
  O6-exit     every EXIT call goes to the state of the active chain at depth NX (exits climb one level at a time from the current
              state: none skipped, none repeated, nothing outside the chain)
  O6-lca      where the callee that computes the entry path returns index r: an equality A(C, Wm) == A(T, Wq) has been tested on this
              path, NX == Wm (exactly the states below that common state were exited) and r == Wq - 1 (entry starts just below it)

Obligations:
  O4-content  a store/append of an ancestor of T into slot i has d == i  (slot k holds the k-th ancestor of the target)
  O5-content  every ENTRY call made through the buffer reads a slot <= K (its content is known to be an ancestor of the target),
              so the entry loop enters A(T, ip), ..., A(T, 0): outermost first, the target last
"""
import ast

from .model import AnalysisError, norm, dotted
from .hsmbuf import BufferAnalysis, St, BOT, Frame
from .hsmsites import classify_sites
from .util import status_const

CUR = '@cur'


class ContentAnalysis(BufferAnalysis):
    def __init__(self, entry, callees=None, cursor_is_target_at_entry=False, track_source=False, assume_self_init=False):
        super().__init__(entry, callees)
        self.cursor_at_entry = cursor_is_target_at_entry
        self.track_source = track_source
        # malformed-chart mode (C24): every initial transition is assumed to target the very state that takes it; the processor must then raise before it asks
        # for another initial transition or returns
        self.assume_self_init = assume_self_init
        self.sig = {}
        self.hlocals = {}
        self.answer_locals = {}
        for f, fr in self.frames.items():
            for n, c, txt, sigs in classify_sites(f):
                self.sig[id(c)] = sigs
            self.hlocals[f] = self._handler_locals(f, fr)
            self.answer_locals[f] = self._answer_locals(f)
            for v in self.hlocals[f]:
                self.names.append(self.dvar(fr, v))
                self.names.append(self.evar(fr, v))
        self.names.append('D:' + CUR)
        self.names.extend(['E:' + CUR, 'D:@state', 'D:@lastfn', 'E:@lastfn', 'NX', 'NO', 'KS', 'Wm', 'Wq', 'N0c', 'N0l', 'N0h', 'N1c', 'N1l', 'N1h', 'TT', 'DTK'])
        self.kvars = {}
        for fr in self.frames.values():
            for b, L in fr.bufenv.items():
                if L not in self.kvars:
                    self.kvars[L] = 'K:' + L
                    self.names.append('K:' + L)
        # slots addressed by a constant index may park a state of the active chain (dispatch hands the source to its callee that way)
        self.const_slots = sorted({n.slice.value for f in self.frames for n in ast.walk(f.node)
                                   if isinstance(n, ast.Subscript) and isinstance(n.slice, ast.Constant) and type(n.slice.value) is int and n.slice.value >= 0})
        for L in self.kvars:
            for c in self.const_slots:
                self.names.append('E:@ss:%s:%d' % (L, c))

    # ------------------------------------------------------------ helpers
    def dvar(self, fr, name):
        return 'D:%s.%s' % (fr.prefix, name)

    def evar(self, fr, name):
        return 'E:%s.%s' % (fr.prefix, name)

    def okey(self, fr, name):
        return 'o:%s.%s' % (fr.prefix, name)

    def skey(self, fr, name):
        return 's:%s.%s' % (fr.prefix, name)

    def _handler_locals(self, f, fr):
        selfn = f.params[0]
        out = set()
        assigns = []
        for n in ast.walk(f.node):
            if isinstance(n, ast.Assign):
                for t in n.targets:
                    if isinstance(t, ast.Tuple) and isinstance(n.value, ast.Tuple) and len(t.elts) == len(n.value.elts):
                        assigns.extend(zip(t.elts, n.value.elts))
                    else:
                        assigns.append((t, n.value))
        for n in ast.walk(f.node):
            if isinstance(n, ast.For):
                shape = self.for_shape(n, fr.bufenv)
                if shape is not None and shape[0] == 'rslice':
                    out.add(n.target.id)
        changed = True
        while changed:
            changed = False
            for t, v in assigns:
                if isinstance(t, ast.Name) and t.id not in out and t.id not in fr.intenv and t.id not in fr.bufenv and t.id not in fr.flagenv:
                    d = dotted(v)
                    hv = (d in (selfn + '.temp.fun', selfn + '.state.fun')) or (isinstance(v, ast.Name) and v.id in out) or \
                        (isinstance(v, ast.Subscript) and isinstance(v.value, ast.Name) and (v.value.id in fr.bufenv or v.value.id in f.params[1:]))
                    if hv:
                        out.add(t.id)
                        changed = True
        return out

    def _answer_locals(self, f):
        """locals that only ever hold a handler's answer or a status constant (never None for a chart that follows the protocol)"""
        vals = {}
        for n in ast.walk(f.node):
            if isinstance(n, ast.Assign):
                for t in n.targets:
                    if isinstance(t, ast.Tuple) and isinstance(n.value, ast.Tuple) and len(t.elts) == len(n.value.elts):
                        for a, b in zip(t.elts, n.value.elts):
                            if isinstance(a, ast.Name):
                                vals.setdefault(a.id, []).append(b)
                    elif isinstance(t, ast.Name):
                        vals.setdefault(t.id, []).append(n.value)
                    else:
                        for x in ast.walk(t):
                            if isinstance(x, ast.Name) and isinstance(x.ctx, ast.Store):
                                vals.setdefault(x.id, []).append(None)
            elif isinstance(n, (ast.AugAssign, ast.For, ast.With, ast.NamedExpr)):
                tg = n.target if not isinstance(n, ast.With) else None
                for x in (ast.walk(tg) if tg is not None else []):
                    if isinstance(x, ast.Name):
                        vals.setdefault(x.id, []).append(None)
        out = set()
        for name, vs in vals.items():
            if name in f.params:
                continue
            if all(v is not None and ((isinstance(v, ast.Call) and id(v) in self.sig) or status_const(v) is not None) for v in vs):
                out.add(name)
        return out

    def is_cursor(self, e, fr):
        return dotted(e) == fr.func.params[0] + '.temp.fun'

    def is_statefun(self, e, fr):
        return dotted(e) == fr.func.params[0] + '.state.fun'

    def hval(self, e, fr, fl, z):
        """abstract handler value (T, S): T = (zvar, const) when the value is A(target, zvar+const), S = (zvar, const) when it is
        A(current state, zvar+const); either part may be None"""
        T = S = None
        if self.is_cursor(e, fr):
            if fl.get('o:' + CUR) == 'T':
                T = ('D:' + CUR, 0)
            if fl.get('s:' + CUR) == 'S':
                S = ('E:' + CUR, 0)
        elif self.is_statefun(e, fr):
            if fl.get('s:@state') == 'S':
                S = ('0', 0)
            if fl.get('o:@state') == 'T':
                T = ('D:@state', 0)
        elif isinstance(e, ast.Name) and e.id in self.hlocals.get(fr.func, ()):
            if fl.get(self.okey(fr, e.id)) == 'T':
                T = (self.dvar(fr, e.id), 0)
            if fl.get(self.skey(fr, e.id)) == 'S':
                S = (self.evar(fr, e.id), 0)
        elif isinstance(e, ast.Subscript) and isinstance(e.value, ast.Name) and e.value.id in fr.bufenv:
            i = self.iexpr(e.slice, fr)
            if i is not None:
                L = fr.bufenv[e.value.id]
                K = self.kvars[L]
                x, c = i
                if z.entails(x, K, -c) and z.entails('0', x, c):     # 0 <= i <= K
                    T = i
                if x == '0' and fl.get('ss:%s:%d' % (L, c)) == 'S':      # a constant slot that holds a state of the active chain
                    S = ('E:@ss:%s:%d' % (L, c), 0)
        return (T, S)

    def _set_part(self, flagkey, mark, zvar, part, fl, z):
        if part is None:
            if mark == 'T':
                fl[flagkey] = 'X'
            else:
                fl.pop(flagkey, None)
            z.forget(zvar)
        else:
            fl[flagkey] = mark
            x, c = part
            if x == zvar:
                z.assign(zvar, zvar, c)
            else:
                z.assign(zvar, x, c)

    def set_h(self, base, hv, fl, z):
        """bind the handler variable `base` ('@cur', '@lastfn' or '<frame>.<local>') to the abstract value hv = (T, S)"""
        T, S = hv if hv is not None else (None, None)
        # a part that refers to the variable being overwritten is evaluated before the overwrite by Zone.assign(x, x, c)
        self._set_part('o:' + base, 'T', 'D:' + base, T, fl, z)
        if self.track_source:
            self._set_part('s:' + base, 'S', 'E:' + base, S, fl, z)

    def shift(self, hv, k):
        T, S = hv
        return ((T[0], T[1] + k) if T else None, (S[0], S[1] + k) if S else None)

    def rebase(self, fl, z, user):
        """a handler answered TRAN: the cursor is the new target.  For the answer to the caller's event the handler that answered is the source S
        (its depth on the active chain becomes KS, the chain facts stay); for an INIT answer the step's exit phase is over"""
        for k in list(fl):
            if k.startswith('o:'):
                fl[k] = 'X'
        fl['o:' + CUR] = 'T'
        z.assign('D:' + CUR, '0', 0)
        for K in self.kvars.values():
            z.assign(K, '0', -1)
        fl.pop('ttop', None)
        z.forget('TT')
        fl.pop('first', None)
        z.forget('DTK')
        if not user and self.assume_self_init:
            z.assign('DTK', '0', 0)
            fl['selfinit'] = '1'
        elif not user:
            # H3 for a well-formed chart: the target of an initial transition is a proper descendant of the state that takes it; that state (depth DTK >= 1 on
            # the new target's chain) is already active, so entering starts just below it
            z.le('0', 'DTK', -1)
            fl['first'] = '1'
        if not user and fl.get('lastvar') and fl.get('lastvar') != CUR:
            base = fl['lastvar']
            fl['o:' + base] = 'T'
            z.assign('D:' + base, 'DTK', 0)
        if self.track_source:
            if user and fl.get('s:@lastfn') == 'S':
                fl['ks'] = '1'
                z.assign('KS', 'E:@lastfn', 0)
            else:
                fl.pop('ks', None)
                z.forget('KS')
            if not user:
                for k in list(fl):
                    if k.startswith('s:') or k.startswith('ss:') or k in ('w', 'n0', 'n1', 'ncur', 'nrep', 'ttop'):
                        del fl[k]
            fl.pop('s:' + CUR, None)
            z.forget('E:' + CUR)

    # ------------------------------------------------------------ handler calls inside expressions
    def calls_effect(self, st, expr, fr):
        calls = [n for n in ast.walk(expr) if isinstance(n, ast.Call) and id(n) in self.sig]
        calls.sort(key=lambda c: (c.lineno, c.col_offset))
        for c in calls:
            sigs = self.sig[id(c)]

            def f(fl, z, c=c, sigs=sigs):
                hv = self.hval(c.func, fr, fl, z)
                if sigs == {'ENTRY'}:
                    ok = hv[0] is not None
                    self.rec('O5-content', fr, c, 'OK' if ok else 'FAIL(slot content unknown)', '%s %s' % (fl, z.show()))
                    if fl.get('first') == '1':
                        # the first entry after an initial transition (or after start): the state just below the one that took it
                        T = hv[0]
                        okf = T is not None and z.entails(T[0], 'DTK', -1 - T[1]) and z.entails('DTK', T[0], T[1] + 1)        # d == DTK - 1
                        self.rec('O5-first', fr, c, 'OK' if okf else 'FAIL(entry does not start just below the state that took the initial transition)', '%s %s' % (fl, z.show()))
                        fl.pop('first', None)
                if sigs == {'INIT'} and fl.get('selfinit') == '1':
                    self.rec('O10-selfinit', fr, c, 'FAIL(asks for another initial transition)', '%s %s' % (fl, z.show()))
                if sigs == {'INIT'}:
                    # the initial transition is asked of the state that has just been entered last: the current target itself
                    T = hv[0]
                    ok = T is not None and z.entails(T[0], '0', -T[1]) and z.entails('0', T[0], T[1])       # d == 0
                    self.rec('O9-init', fr, c, 'OK' if ok else ('FAIL(not the target)' if T is not None else 'FAIL(not known to be the target)'), '%s %s' % (fl, z.show()))
                if self.track_source and 'EXIT' in sigs:
                    S = hv[1]
                    ok = S is not None and z.entails(S[0], 'NX', -S[1]) and z.entails('NX', S[0], S[1])       # e(x) == NX
                    self.rec('O6-exit', fr, c, 'OK' if ok else ('FAIL(not the next state of the active chain)' if S is not None else 'FAIL(not known to be on the active chain)'),
                             '%s %s' % (fl, z.show()))
                    if S is not None:
                        z.le(S[0], 'NX', -S[1])
                        z.le('NX', S[0], S[1])
                    if fr.func is not self.entry and fl.get('ks') == '1' and fl.get('w') != '1':
                        self.check_cover(fl, z, c, fr)
                    z.assign('NX', 'NX', 1)
                    self.nrel(fl, z)
                if self.track_source and sigs == {'USER'}:
                    # the event is offered to the current state first, then to each enclosing state in turn: the n-th offer goes to depth n of the active chain
                    S = hv[1]
                    ok = S is not None and z.entails(S[0], 'NO', -S[1]) and z.entails('NO', S[0], S[1])
                    self.rec('O8-offer', fr, c, 'OK' if ok else 'FAIL(not the next state of the active chain)', '%s %s' % (fl, z.show()))
                    if S is not None:
                        z.le(S[0], 'NO', -S[1])
                        z.le('NO', S[0], S[1])
                    z.assign('NO', 'NO', 1)
                if self.track_source and sigs == {'EMPTY'} and fl.get('lastsig') == 'USER':
                    # the guard fallback re-asks the state that has just declined the event
                    S, P = hv[1], (('E:@lastfn', 0) if fl.get('s:@lastfn') == 'S' else None)
                    ok = S is not None and P is not None and z.entails(S[0], P[0], P[1] - S[1]) and z.entails(P[0], S[0], S[1] - P[1])
                    self.rec('O8-offer', fr, c, 'OK' if ok else 'FAIL(the re-ask does not go to the state that declined)', '%s %s' % (fl, z.show()))
                # remember who was asked (both chains), for answers that are tested later
                self.set_h('@lastfn', hv, fl, z)
                fl['lastsig'] = ','.join(sorted(sigs))
                fl['lastvar'] = CUR if self.is_cursor(c.func, fr) else ('%s.%s' % (fr.prefix, c.func.id) if isinstance(c.func, ast.Name) and c.func.id in self.hlocals.get(fr.func, ()) else '')
                if sigs and sigs <= {'SUPER', 'EMPTY'} and (hv[0] is not None or hv[1] is not None):
                    self.set_h(CUR, self.shift(hv, 1), fl, z)
                else:
                    self.set_h(CUR, None, fl, z)
                fl['o:last'] = ''
                return (fl, z)
            st = st.map(f)
        return st

    def note_result(self, st, tgt, val, fr):
        """`r = x(self, e)`: r is the answer of the most recent handler call"""
        if isinstance(val, ast.Call) and id(val) in self.sig and isinstance(tgt, ast.Name):
            def f(fl, z):
                fl['o:last'] = '%s.%s' % (fr.prefix, tgt.id)
                return (fl, z)
            return st.map(f)
        return st

    def loads(self, st, expr, fr):
        st = super().loads(st, expr, fr)
        return self.calls_effect(st, expr, fr)

    # ------------------------------------------------------------ assignments
    def assign1(self, st, tgt, val, fr):
        # stores into the buffer: content obligations and frontier update (index obligation first, by the base class)
        if isinstance(tgt, ast.Subscript) and self.is_buf(tgt.value, fr):
            st = super().assign1(st, tgt, val, fr)

            def pre(fl, z):
                return self.hval(val, fr, fl, z) if val is not None else (None, None)
            return self.store_content(st, fr.bufenv[tgt.value.id], self.iexpr(tgt.slice, fr), pre, fr, tgt, 'store')
        if dotted(tgt) is not None:
            st = self.kill_facts(st, fr, path=dotted(tgt))
        if self.is_statefun(tgt, fr):
            def f(fl, z):
                fl.pop('s:@state', None)
                fl.pop('o:@state', None)
                z.forget('D:@state')
                return (fl, z)
            return st.map(f)
        base = CUR if self.is_cursor(tgt, fr) else ('%s.%s' % (fr.prefix, tgt.id) if isinstance(tgt, ast.Name) and tgt.id in self.hlocals.get(fr.func, ()) else None)
        if base is not None:
            def f(fl, z):
                hv = self.hval(val, fr, fl, z) if val is not None else None
                self.set_h(base, hv, fl, z)
                if isinstance(val, ast.Constant) and val.value is None:
                    fl['o:' + base] = 'N'       # holds None, not a handler
                return (fl, z)
            return st.map(f)
        return super().assign1(st, tgt, val, fr)

    def store_content(self, st, L, idx, hvf, fr, node, how):
        """a value is stored into slot idx of buffer L; hvf(fl, z) gives its abstract handler value"""
        K = self.kvars[L]

        def f(fl, z):
            hv = hvf(fl, z)
            T, S = hv
            self.source_slot(fl, z, L, idx, S)
            if idx is None:
                z.forget(K)
                z.le('0', K, 1)      # K >= -1
                return (fl, z)
            x, c = idx
            if T is not None:
                dx, dc = T
                ok = z.entails(dx, x, c - dc) and z.entails(x, dx, dc - c)       # d == i
                self.rec('O4-content', fr, node, 'OK' if ok else 'FAIL(depth != slot)', '%s %s' % (fl, z.show()))
                if ok:
                    if z.entails(x, K, 1 - c) and z.entails(K, x, c - 1):        # i == K+1
                        z.assign(K, x, c)
                        return (fl, z)
                    if z.entails(x, K, -c):                                      # i <= K : consistent rewrite
                        return (fl, z)
                    if z.entails(K, x, c - 2):                                   # i >= K+2 : beyond the frontier
                        return (fl, z)
            else:
                if z.entails(K, x, c - 1):                                       # i >= K+1 : beyond the frontier, frontier unchanged
                    return (fl, z)
            # the frontier may shrink to i-1
            z.forget(K)
            z.le('0', K, 1)
            # K_new <= i - 1
            z.le(K, x, c - 1)
            return (fl, z)
        return st.map(f)

    def source_slot(self, fl, z, L, idx, S):
        """remember the constant slots that hold a state of the active chain (dispatch parks the source there for the callee)"""
        if not self.track_source:
            return
        const = idx[1] if (idx is not None and idx[0] == '0') else None
        for c in self.const_slots:
            key = 'ss:%s:%d' % (L, c)
            var = 'E:@ss:%s:%d' % (L, c)
            if const is not None:
                if c != const:
                    continue
                if S is not None:
                    fl[key] = 'S'
                    z.assign(var, S[0], S[1])
                    continue
            elif key not in fl:
                continue
            elif idx is not None and (z.entails(idx[0], '0', c - idx[1] - 1) or z.entails('0', idx[0], idx[1] - c - 1)):      # i < c or i > c : another slot
                continue
            fl.pop(key, None)
            z.forget(var)

    # ------------------------------------------------------------ statements
    def stmt(self, s, st, fr, ctl):
        if isinstance(s, ast.Assign):
            tgt = s.targets[0]
            if isinstance(tgt, ast.Tuple) and isinstance(s.value, ast.Tuple) and len(tgt.elts) == len(s.value.elts):
                # evaluate handler calls / loads of the right-hand side once, then bind element-wise against the pre-state values
                st = self.loads(st, s.value, fr)
                out = St()
                for key, z in st.parts.items():
                    if z.bot:
                        continue
                    fl = dict(key)
                    z = z.copy()
                    vals = [self.hval(v, fr, fl, z) for v in s.value.elts]
                    # depth variables are bound to the targets in order; a target's own old value is only read by later elements if they
                    # mention it, which the processor's tuple assignments never do for handlers
                    sub = St({tuple(sorted(fl.items(), key=lambda kv: kv[0])): z})
                    for t, v, hv in zip(tgt.elts, s.value.elts, vals):
                        sub = self._assign_pre(sub, t, v, hv, fr)
                    out = out.join(sub)
                return out
            if isinstance(s.value, ast.Call) and isinstance(s.value.func, ast.Attribute) and s.value.func.attr in self.callees \
                    and any(self.is_buf(a, fr) for a in s.value.args):
                return super().stmt(s, st, fr, ctl)
            if not isinstance(tgt, ast.Tuple):
                st = self.loads(st, s.value, fr)
                for t in s.targets:
                    st = self.assign1(st, t, s.value, fr)
                    st = self.note_result(st, t, s.value, fr)
                return st
        if isinstance(s, ast.Expr):
            c = s.value
            if isinstance(c, ast.Call) and isinstance(c.func, ast.Attribute) and c.func.attr == 'append' and self.is_buf(c.func.value, fr):
                g = ctl.get('grow')
                L = fr.bufenv[c.func.value.id]
                val = c.args[0] if c.args else None
                # the abstract value of the appended expression is taken before the length changes
                st2 = super().stmt(s, st, fr, ctl)     # index obligation O2 and L += 1
                # the appended element lands at index L_old == grow index (assumed after O2)
                if g is not None:
                    def pre(fl, z):
                        return self.hval(val, fr, fl, z) if val is not None else (None, None)
                    return self.store_content(st2, L, g, pre, fr, s, 'append')
                return st2
        if isinstance(s, ast.Return) and self.track_source and fr.func is not self.entry:
            self.check_lca(st, s, fr)
        if isinstance(s, ast.Raise) and s.exc is not None:        # (a bare `raise` in a handler passes on an exception that came from elsewhere - a user action)
            def f(fl, z):
                self.rec('O7-noraise', fr, s, 'FAIL(reachable for a chart that follows the protocol)', '%s %s' % (fl, z.show()))
                return (fl, z)
            st.map(f)
        if isinstance(s, ast.Return) and self.assume_self_init and fr.func is self.entry:
            def fr_(fl, z):
                if fl.get('selfinit') == '1':
                    self.rec('O10-selfinit', fr, s, 'FAIL(returns normally)', '%s %s' % (fl, z.show()))
                return (fl, z)
            st.map(fr_)
        return super().stmt(s, st, fr, ctl)

    def check_lca(self, st, s, fr):
        r = self.iexpr(s.value, fr) if s.value is not None else None

        def f(fl, z):
            if r is None:
                self.rec('O6-lca', fr, s, 'UNRESOLVED', 'the returned entry index %s is not an affine integer expression' % (norm(s.value) if s.value is not None else None))
                return (fl, z)
            x, c = r
            if fl.get('w') != '1':
                self.rec('O6-lca', fr, s, 'FAIL(no common-ancestor test passed on this path)', '%s %s' % (fl, z.show()))
                return (fl, z)
            ex_ok = z.entails('NX', 'Wm', 0) and z.entails('Wm', 'NX', 0)                   # NX == Wm
            en_ok = z.entails(x, 'Wq', -1 - c) and z.entails('Wq', x, c + 1)                # r == Wq - 1
            v = 'OK' if ex_ok and en_ok else 'FAIL(%s)' % ', '.join(
                ([] if ex_ok else ['the states exited are not exactly those below the common state']) +
                ([] if en_ok else ['entry does not start just below the common state']))
            self.rec('O6-lca', fr, s, v, '%s %s' % (fl, z.show()))
            return (fl, z)
        st.map(f)

    def _assign_pre(self, st, tgt, val, hv, fr):
        """assign with a pre-computed handler value (parallel assignment)"""
        if isinstance(tgt, ast.Subscript) and self.is_buf(tgt.value, fr):
            st = BufferAnalysis.assign1(self, st, tgt, val, fr)
            return self.store_content(st, fr.bufenv[tgt.value.id], self.iexpr(tgt.slice, fr), lambda fl, z: hv, fr, tgt, 'store')
        if dotted(tgt) is not None:
            st = self.kill_facts(st, fr, path=dotted(tgt))
        if self.is_statefun(tgt, fr):
            def f(fl, z):
                fl.pop('s:@state', None)
                fl.pop('o:@state', None)
                z.forget('D:@state')
                return (fl, z)
            return st.map(f)
        base = CUR if self.is_cursor(tgt, fr) else ('%s.%s' % (fr.prefix, tgt.id) if isinstance(tgt, ast.Name) and tgt.id in self.hlocals.get(fr.func, ()) else None)
        if base is not None:
            def f(fl, z):
                self.set_h(base, hv, fl, z)
                return (fl, z)
            return st.map(f)
        return BufferAnalysis.assign1(self, st, tgt, val, fr)

    # ------------------------------------------------------------ minimality of the common ancestor
    # records (c, lo, hi), two of them: the state of the active chain at depth c is known to differ from the target's ancestors at depths lo..hi
    def note_ne(self, fl, z, S, T):
        (sx, sk), (tx, tk) = S, T

        def eq(a, ak, b, bk):          # a+ak == b+bk
            return z.entails(a, b, bk - ak) and z.entails(b, a, ak - bk)
        for r in ('N0', 'N1'):
            if fl.get(r.lower()) != '1' or not eq(sx, sk, r + 'c', 0):
                continue
            lo, hi = r + 'l', r + 'h'
            if z.entails(lo, tx, tk) and z.entails(tx, hi, -tk):            # lo <= d <= hi
                return
            # (sound for any d in the stated range: the interval never claims a depth that was not compared; exact when d is adjacent)
            if z.entails(tx, hi, 1 - tk) and z.entails(lo, tx, tk):         # lo <= d <= hi + 1
                z.assign(hi, tx, tk)
                return
            if z.entails(lo, tx, tk + 1) and z.entails(tx, hi, -tk):        # lo - 1 <= d <= hi
                z.assign(lo, tx, tk)
                return
            z.assign(lo, tx, tk)
            z.assign(hi, tx, tk)
            fl['nrep'] = r         # (kept apart from the states in which this record still has its old extent)
            return
        # another state of the active chain: the older record makes room
        if fl.get('n0') == '1':
            fl['n1'] = '1'
            for v in ('c', 'l', 'h'):
                z.assign('N1' + v, 'N0' + v, 0)
        fl['n0'] = '1'
        fl.pop('nrep', None)
        z.assign('N0c', sx, sk)
        z.assign('N0l', tx, tk)
        z.assign('N0h', tx, tk)
        self.nrel(fl, z)

    def nrel(self, fl, z):
        """partition key: how the depth of the newer record relates to the exit count (states that differ in it are kept apart, so "the record of the
        state exited last" and "the record of the candidate being compared now" never blur in a join)"""
        if fl.get('n0') != '1':
            fl.pop('ncur', None)
            return
        for k in (-2, -1, 0, 1, 2):
            if z.entails('N0c', 'NX', k) and z.entails('NX', 'N0c', -k):
                fl['ncur'] = str(k)
                return
        fl['ncur'] = '?'

    def check_cover(self, fl, z, node, fr):
        """a state of the active chain is exited although no common-ancestor test has passed yet: it is given up as a candidate, so it must have been compared
        with *every* ancestor of the target (record lo == 0, hi == frontier K) and the ancestor path must be complete (it ends at the outermost state)"""
        def eq(a, ak, b, bk):
            return z.entails(a, b, bk - ak) and z.entails(b, a, ak - bk)
        ok = False
        for K in self.kvars.values():
            for r in ('N0', 'N1'):
                if fl.get(r.lower()) == '1' and eq(r + 'c', 0, 'NX', 0) and eq(r + 'l', 0, '0', 0) and eq(r + 'h', 0, K, 0) and fl.get('ttop') == '1' and eq('TT', 0, K, 0):
                    ok = True
        self.rec('O6-cover', fr, node, 'OK' if ok else 'FAIL(exited without having been compared with every ancestor of the target up to the outermost state)', '%s %s' % (fl, z.show()))

    def check_min(self, fl, z, node, fr):
        """a common-ancestor test has just passed for (Wm, Wq): it is the innermost common state iff the states one level below it on both sides differ
        (in a tree, A(C,m) == A(T,q) and A(C,m-1) != A(T,q-1) exclude every lower match); nothing is below when the common state is the source itself
        (Wm == KS) or the target itself (Wq == 0)"""
        def eq(a, ak, b, bk):
            return z.entails(a, b, bk - ak) and z.entails(b, a, ak - bk)
        ok = False
        why = ''
        if fl.get('ks') == '1' and eq('Wm', 0, 'KS', 0):
            ok = True           # the source encloses the target (or is it: self transition)
        elif eq('Wq', 0, '0', 0):
            ok = True           # the target encloses the source
        else:
            for r in ('N0', 'N1'):
                if fl.get(r.lower()) != '1' or not eq(r + 'c', 1, 'Wm', 0):       # c == Wm-1
                    continue
                if z.entails(r + 'l', 'Wq', -1) and z.entails('Wq', r + 'h', 1):        # lo <= Wq-1 <= hi
                    ok = True
                if eq(r + 'l', 0, '0', 0) and z.entails('Wq', r + 'h', 1):              # lo == 0 and Wq-1 <= hi: either Wq == 0 (nothing below) or 0 <= Wq-1 <= hi
                    ok = True
        self.rec('O6-min', fr, node, 'OK' if ok else 'FAIL(the states just below the match were not compared)', '%s %s' % (fl, z.show()))

    # ------------------------------------------------------------ guards: learning from answers and from identity tests
    def guard(self, st, test, pol, fr):
        st = super().guard(st, test, pol, fr)
        if isinstance(test, ast.Compare) and len(test.ops) == 1:
            l, op, r = test.left, type(test.ops[0]), test.comparators[0]
            # H1-H3: a handler always answers with a status; a local that only ever holds answers / status constants is never None
            for a, b in ((l, r), (r, l)):
                if isinstance(b, ast.Constant) and b.value is None and isinstance(a, ast.Name) and a.id in self.answer_locals.get(fr.func, ()):
                    is_none = (op in (ast.Is, ast.Eq)) == pol
                    if op in (ast.Is, ast.Eq, ast.IsNot, ast.NotEq) and is_none:
                        return BOT()
            sc = status_const(r) or status_const(l)
            other = l if status_const(r) else r
            direct = isinstance(other, ast.Call) and id(other) in self.sig

            def is_answer(fl):
                return direct or (isinstance(other, ast.Name) and fl.get('o:last') == '%s.%s' % (fr.prefix, other.id))
            learns = False
            if sc == 'TRAN':
                if op in (ast.Eq, ast.Is, ast.GtE) and pol:
                    learns = True
                if op in (ast.NotEq, ast.IsNot, ast.Lt) and not pol:
                    learns = True
            if learns:
                def f(fl, z):
                    if is_answer(fl):
                        self.rebase(fl, z, user=fl.get('lastsig') in ('USER', 'EMPTY'))
                    return (fl, z)
                st = st.map(f)
            # H1/H2: an answer of SUPER - or, to EXIT/ENTRY, anything but HANDLED - means the handler named its parent: the cursor is parent(asked)
            equal = (op in (ast.Eq, ast.Is) and pol) or (op in (ast.NotEq, ast.IsNot) and not pol)
            differs = (op in (ast.Eq, ast.Is) and not pol) or (op in (ast.NotEq, ast.IsNot) and pol)
            if sc == 'SUPER' and differs:
                def f(fl, z):
                    if is_answer(fl) and fl.get('lastsig') in ('SUPER', 'EMPTY') and fl.get('o:@lastfn') == 'T':
                        # H1: only the outermost state declines to name a parent - the target's ancestor chain ends at the state that was asked
                        fl['ttop'] = '1'
                        z.assign('TT', 'D:@lastfn', 0)
                    return (fl, z)
                st = st.map(f)
            if (sc == 'SUPER' and equal) or (sc == 'HANDLED' and differs):
                def f(fl, z, sc=sc):
                    if not is_answer(fl):
                        return (fl, z)
                    if sc == 'HANDLED' and fl.get('lastsig') not in ('EXIT', 'ENTRY'):
                        return (fl, z)
                    hv = ((('D:@lastfn', 0) if fl.get('o:@lastfn') == 'T' else None), (('E:@lastfn', 0) if fl.get('s:@lastfn') == 'S' else None))
                    if hv[0] is not None or hv[1] is not None:
                        self.set_h(CUR, self.shift(hv, 1), fl, z)
                    return (fl, z)
                st = st.map(f)
            # identity / equality of two handler values
            if sc is None and op in (ast.Eq, ast.Is, ast.NotEq, ast.IsNot):
                equal = (op in (ast.Eq, ast.Is)) == pol
                if equal:
                    def f(fl, z):
                        a = self.hval(l, fr, fl, z)
                        b = self.hval(r, fr, fl, z)
                        # the cursor always holds a handler: it is never equal to None
                        for x, y in ((l, r), (r, l)):
                            none = (isinstance(x, ast.Constant) and x.value is None) or \
                                (isinstance(x, ast.Name) and fl.get(self.okey(fr, x.id)) == 'N')
                            hy = self.hval(y, fr, fl, z)
                            if none and (self.is_cursor(y, fr) or self.is_statefun(y, fr) or hy[0] is not None or hy[1] is not None):
                                z.bot = True            # a value known to be a state of a chain is a handler, never None
                                return (fl, z)
                        # a tree has no repeated ancestors: equal states of one chain have equal depth
                        for i in (0, 1):
                            if a[i] is not None and b[i] is not None:
                                z.le(a[i][0], b[i][0], b[i][1] - a[i][1])
                                z.le(b[i][0], a[i][0], a[i][1] - b[i][1])
                        if self.track_source:
                            pair = (a[1], b[0]) if (a[1] is not None and b[0] is not None) else ((b[1], a[0]) if (b[1] is not None and a[0] is not None) else None)
                            if pair is not None:
                                (sx, sk), (tx, tk) = pair
                                z.assign('Wm', sx, sk)
                                z.assign('Wq', tx, tk)
                                fl['w'] = '1'
                                self.check_min(fl, z, test, fr)
                                # the source is the target (self transition): UML exits and re-enters it - the common state is the parent of both
                                if fl.get('ks') == '1' and z.entails('Wm', 'KS', 0) and z.entails('KS', 'Wm', 0) and z.entails('Wq', '0', 0) and z.entails('0', 'Wq', 0):
                                    z.assign('Wm', 'Wm', 1)
                                    z.assign('Wq', 'Wq', 1)
                        return (fl, z)
                    st = st.map(f)
                if not equal:
                    def fne(fl, z):
                        a = self.hval(l, fr, fl, z)
                        b = self.hval(r, fr, fl, z)
                        for i in (0, 1):
                            if a[i] is not None and b[i] is not None and z.entails(a[i][0], b[i][0], b[i][1] - a[i][1]) and z.entails(b[i][0], a[i][0], a[i][1] - b[i][1]):
                                z.bot = True        # the same depth on one chain is the same state: "they differ" cannot happen
                        return (fl, z)
                    st = st.map(fne)
                if not equal and self.track_source:
                    def f(fl, z):
                        a = self.hval(l, fr, fl, z)
                        b = self.hval(r, fr, fl, z)
                        pair = (a[1], b[0]) if (a[1] is not None and b[0] is not None) else ((b[1], a[0]) if (b[1] is not None and a[0] is not None) else None)
                        if pair is not None:
                            self.note_ne(fl, z, pair[0], pair[1])
                        return (fl, z)
                    st = st.map(f)
        return st

    def inline(self, st, tgt, call, fr):
        res = super().inline(st, tgt, call, fr)
        cfr = self.frames[self.callees[call.func.attr]]

        def f(fl, z):
            for k in list(fl):
                if k.startswith('o:%s.' % cfr.prefix) or k.startswith('s:%s.' % cfr.prefix):
                    del fl[k]
            for v in self.hlocals.get(cfr.func, ()):
                z.forget(self.dvar(cfr, v))
                z.forget(self.evar(cfr, v))
            if fl.get('o:last', '').startswith(cfr.prefix + '.'):
                fl['o:last'] = ''
            return (fl, z)
        return res.map(f)

    # ------------------------------------------------------------ driver
    def run(self):
        fr = self.frames[self.entry]
        from .zone import Zone
        z = Zone(self.names)
        for K in self.kvars.values():
            z.assign(K, '0', -1)
        fl = {}
        if self.cursor_at_entry:
            fl['o:' + CUR] = 'T'
            z.assign('D:' + CUR, '0', 0)
            # start_at leaves state.fun on the state enclosing everything (ORDER.start_at): a proper ancestor of the start state
            fl['o:@state'] = 'T'
            z.le('0', 'D:@state', -1)
            z.assign('DTK', 'D:@state', 0)
            fl['first'] = '1'
        if self.track_source:
            # between steps the cursor is the current state (HSM-CURSOR.I1): both are depth 0 of the active chain; nothing exited yet
            fl['s:' + CUR] = 'S'
            fl['s:@state'] = 'S'
            z.assign('E:' + CUR, '0', 0)
            z.assign('NX', '0', 0)
            z.assign('NO', '0', 0)
        rets = []
        end = self.block(self.entry.node.body, St({tuple(sorted(fl.items(), key=lambda kv: kv[0])): z}), fr, {'returns': rets})
        if self.assume_self_init:
            def fe(fl, z):
                if fl.get('selfinit') == '1':
                    self.rec('O10-selfinit', fr, self.entry.node, 'FAIL(falls off the end normally)', '%s %s' % (fl, z.show()))
                return (fl, z)
            end.map(fe)
            # a site that was never reached with the assumption in force is fine
            for f_, fr_ in self.frames.items():
                for c_ in [n for n in ast.walk(f_.node) if isinstance(n, ast.Call) and id(n) in self.sig and self.sig[id(n)] == {'INIT'}]:
                    if self.key_of('O10-selfinit', fr_, c_) not in self.obl:
                        self.rec('O10-selfinit', fr_, c_, 'OK', 'not reached after an initial transition to the state itself')
        # raise statements the abstract execution never reached are unreachable for every chart that follows the protocol
        for f_, fr_ in self.frames.items():
            for n in ast.walk(f_.node):
                if isinstance(n, ast.Raise) and self.key_of('O7-noraise', fr_, n) not in self.obl:
                    self.rec('O7-noraise', fr_, n, 'OK', 'not reachable')
        return [self.obl[k] for k in self.order]
