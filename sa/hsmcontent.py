"""Content ghosts on top of the buffer analysis (the "thorough" layer of C01/C03):

  K(buf)   content frontier: slots 0..K of the path buffer hold the 0-th..K-th ancestor of the current target T
  d(v)     for a handler-valued variable v (and for the cursor temp.fun) that is known to be an ancestor of T: its depth,
           i.e. v == A(T, d(v)); K and every d are zone variables, so relations like d(cursor) == ip + 1, K == ip are found
           by the same fixpoint that proves the index obligations.

Handlers are modelled by the protocol H1-H3: x(self, SUPER|EMPTY) moves the cursor to parent(x); an INIT/USER answer of TRAN
re-bases everything on the new target (cursor = T, d = 0, K = -1); any other handler call leaves the cursor unknown.

Obligations:
  O4-content  a store/append of an ancestor of T into slot i has d == i  (slot k holds the k-th ancestor of the target)
  O5-content  every ENTRY call made through the buffer reads a slot <= K (its content is known to be an ancestor of the target),
              so the entry loop enters A(T, ip), ..., A(T, 0): outermost first, the target last
"""
import ast

from .model import AnalysisError, norm, dotted
from .hsmbuf import BufferAnalysis, St, BOT, Frame
from .hsmsites import classify_sites
from .util import status_const

CUR = '@cur'


class ContentAnalysis(BufferAnalysis):
    def __init__(self, entry, callees=None, cursor_is_target_at_entry=False):
        super().__init__(entry, callees)
        self.cursor_at_entry = cursor_is_target_at_entry
        self.sig = {}
        self.hlocals = {}
        for f, fr in self.frames.items():
            for n, c, txt, sigs in classify_sites(f):
                self.sig[id(c)] = sigs
            self.hlocals[f] = self._handler_locals(f, fr)
            for v in self.hlocals[f]:
                self.names.append(self.dvar(fr, v))
        self.names.append('D:' + CUR)
        self.kvars = {}
        for fr in self.frames.values():
            for b, L in fr.bufenv.items():
                if L not in self.kvars:
                    self.kvars[L] = 'K:' + L
                    self.names.append('K:' + L)

    # ------------------------------------------------------------ helpers
    def dvar(self, fr, name):
        return 'D:%s.%s' % (fr.prefix, name)

    def okey(self, fr, name):
        return 'o:%s.%s' % (fr.prefix, name)

    def _handler_locals(self, f, fr):
        selfn = f.params[0]
        out = set()
        assigns = []
        for n in ast.walk(f.node):
            if isinstance(n, ast.Assign):
                for t in n.targets:
                    if isinstance(t, ast.Tuple) and isinstance(n.value, ast.Tuple) and len(t.elts) == len(n.value.elts):
                        assigns.extend(zip(t.elts, n.value.elts))
                    else:
                        assigns.append((t, n.value))
        for n in ast.walk(f.node):
            if isinstance(n, ast.For):
                shape = self.for_shape(n, fr.bufenv)
                if shape is not None and shape[0] == 'rslice':
                    out.add(n.target.id)
        changed = True
        while changed:
            changed = False
            for t, v in assigns:
                if isinstance(t, ast.Name) and t.id not in out and t.id not in fr.intenv and t.id not in fr.bufenv and t.id not in fr.flagenv:
                    d = dotted(v)
                    hv = (d in (selfn + '.temp.fun', selfn + '.state.fun')) or (isinstance(v, ast.Name) and v.id in out) or \
                        (isinstance(v, ast.Subscript) and isinstance(v.value, ast.Name) and v.value.id in fr.bufenv)
                    if hv:
                        out.add(t.id)
                        changed = True
        return out

    def is_cursor(self, e, fr):
        return dotted(e) == fr.func.params[0] + '.temp.fun'

    def hval(self, e, fr, fl, z):
        """abstract handler value: ('T', (zvar, const)) = A(T, zvar+const), or None"""
        if self.is_cursor(e, fr):
            if fl.get('o:' + CUR) == 'T':
                return ('T', ('D:' + CUR, 0))
            return None
        if isinstance(e, ast.Name) and e.id in self.hlocals.get(fr.func, ()):
            if fl.get(self.okey(fr, e.id)) == 'T':
                return ('T', (self.dvar(fr, e.id), 0))
            return None
        if isinstance(e, ast.Subscript) and isinstance(e.value, ast.Name) and e.value.id in fr.bufenv:
            i = self.iexpr(e.slice, fr)
            if i is None:
                return None
            K = self.kvars[fr.bufenv[e.value.id]]
            x, c = i
            if z.entails(x, K, -c) and z.entails('0', x, c):     # 0 <= i <= K
                return ('T', i)
            return None
        return None

    def set_h(self, name_key, dvar, val, fl, z):
        if val is None:
            fl[name_key] = 'X'
            z.forget(dvar)
        else:
            fl[name_key] = 'T'
            x, c = val[1]
            if x == dvar:
                z.assign(dvar, dvar, c)
            else:
                z.assign(dvar, x, c)

    def rebase(self, fl, z):
        """a handler answered TRAN: the cursor is the new target"""
        for k in list(fl):
            if k.startswith('o:'):
                fl[k] = 'X'
        fl['o:' + CUR] = 'T'
        z.assign('D:' + CUR, '0', 0)
        for K in self.kvars.values():
            z.assign(K, '0', -1)

    # ------------------------------------------------------------ handler calls inside expressions
    def calls_effect(self, st, expr, fr):
        calls = [n for n in ast.walk(expr) if isinstance(n, ast.Call) and id(n) in self.sig]
        calls.sort(key=lambda c: (c.lineno, c.col_offset))
        for c in calls:
            sigs = self.sig[id(c)]

            def f(fl, z, c=c, sigs=sigs):
                hv = self.hval(c.func, fr, fl, z)
                if sigs == {'ENTRY'}:
                    ok = hv is not None
                    self.rec('O5-content', fr, c, 'OK' if ok else 'FAIL(slot content unknown)', '%s %s' % (fl, z.show()))
                if sigs and sigs <= {'SUPER', 'EMPTY'} and hv is not None:
                    x, k = hv[1]
                    self.set_h('o:' + CUR, 'D:' + CUR, ('T', (x, k + 1)), fl, z)
                else:
                    self.set_h('o:' + CUR, 'D:' + CUR, None, fl, z)
                fl['o:last'] = ''
                return (fl, z)
            st = st.map(f)
        return st

    def note_result(self, st, tgt, val, fr):
        """`r = x(self, e)`: r is the answer of the most recent handler call"""
        if isinstance(val, ast.Call) and id(val) in self.sig and isinstance(tgt, ast.Name):
            def f(fl, z):
                fl['o:last'] = '%s.%s' % (fr.prefix, tgt.id)
                return (fl, z)
            return st.map(f)
        return st

    def loads(self, st, expr, fr):
        st = super().loads(st, expr, fr)
        return self.calls_effect(st, expr, fr)

    # ------------------------------------------------------------ assignments
    def assign1(self, st, tgt, val, fr):
        # stores into the buffer: content obligations and frontier update (index obligation first, by the base class)
        if isinstance(tgt, ast.Subscript) and self.is_buf(tgt.value, fr):
            st = super().assign1(st, tgt, val, fr)
            return self.store_content(st, fr.bufenv[tgt.value.id], self.iexpr(tgt.slice, fr), val, fr, tgt, 'store')
        if dotted(tgt) is not None:
            st = self.kill_facts(st, fr, path=dotted(tgt))
        if self.is_cursor(tgt, fr):
            def f(fl, z):
                hv = self.hval(val, fr, fl, z) if val is not None else None
                self.set_h('o:' + CUR, 'D:' + CUR, hv, fl, z)
                return (fl, z)
            return st.map(f)
        if isinstance(tgt, ast.Name) and tgt.id in self.hlocals.get(fr.func, ()):
            def f(fl, z):
                hv = self.hval(val, fr, fl, z) if val is not None else None
                self.set_h(self.okey(fr, tgt.id), self.dvar(fr, tgt.id), hv, fl, z)
                return (fl, z)
            return st.map(f)
        return super().assign1(st, tgt, val, fr)

    def store_content(self, st, L, idx, val, fr, node, how):
        K = self.kvars[L]

        def f(fl, z):
            hv = self.hval(val, fr, fl, z) if val is not None else None
            if idx is None:
                z.forget(K)
                z.le('0', K, 1)      # K >= -1
                return (fl, z)
            x, c = idx
            if hv is not None:
                dx, dc = hv[1]
                ok = z.entails(dx, x, c - dc) and z.entails(x, dx, dc - c)       # d == i
                self.rec('O4-content', fr, node, 'OK' if ok else 'FAIL(depth != slot)', '%s %s' % (fl, z.show()))
                if ok:
                    if z.entails(x, K, 1 - c) and z.entails(K, x, c - 1):        # i == K+1
                        z.assign(K, x, c)
                        return (fl, z)
                    if z.entails(x, K, -c):                                      # i <= K : consistent rewrite
                        return (fl, z)
                    if z.entails(K, x, c - 2):                                   # i >= K+2 : beyond the frontier
                        return (fl, z)
            else:
                if z.entails(K, x, c - 1):                                       # i >= K+1 : beyond the frontier, frontier unchanged
                    return (fl, z)
            # the frontier may shrink to i-1
            z2 = z.copy()
            z.forget(K)
            z.le('0', K, 1)
            # K_new <= i - 1
            z.le(K, x, c - 1)
            return (fl, z)
        return st.map(f)

    # ------------------------------------------------------------ statements
    def stmt(self, s, st, fr, ctl):
        if isinstance(s, ast.Assign):
            tgt = s.targets[0]
            if isinstance(tgt, ast.Tuple) and isinstance(s.value, ast.Tuple) and len(tgt.elts) == len(s.value.elts):
                # evaluate handler calls / loads of the right-hand side once, then bind element-wise against the pre-state values
                st = self.loads(st, s.value, fr)

                def pre(fl, z):
                    vals = [self.hval(v, fr, fl, z) for v in s.value.elts]
                    # materialise depths as constants relative to existing vars before any target is overwritten
                    return (fl, z, vals)
                out = St()
                for key, z in st.parts.items():
                    if z.bot:
                        continue
                    fl = dict(key)
                    z = z.copy()
                    vals = [self.hval(v, fr, fl, z) for v in s.value.elts]
                    # snapshot depth variables into temporaries by immediately assigning to targets in order; a target's own old value is
                    # only read by later elements if they mention it, which the processor's tuple assignments never do for handlers
                    sub = St({tuple(sorted(fl.items())): z})
                    for t, v, hv in zip(tgt.elts, s.value.elts, vals):
                        sub = self._assign_pre(sub, t, v, hv, fr)
                    out = out.join(sub)
                return out
            if isinstance(s.value, ast.Call) and isinstance(s.value.func, ast.Attribute) and s.value.func.attr in self.callees \
                    and any(self.is_buf(a, fr) for a in s.value.args):
                return super().stmt(s, st, fr, ctl)
            if not isinstance(tgt, ast.Tuple):
                st = self.loads(st, s.value, fr)
                for t in s.targets:
                    st = self.assign1(st, t, s.value, fr)
                    st = self.note_result(st, t, s.value, fr)
                return st
        if isinstance(s, ast.Expr):
            c = s.value
            if isinstance(c, ast.Call) and isinstance(c.func, ast.Attribute) and c.func.attr == 'append' and self.is_buf(c.func.value, fr):
                g = ctl.get('grow')
                L = fr.bufenv[c.func.value.id]
                st2 = super().stmt(s, st, fr, ctl)     # index obligation O2 and L += 1
                # the appended element lands at index L_old == grow index (assumed after O2)
                val = c.args[0] if c.args else None
                if g is not None:
                    return self.store_content(st2, L, g, val, fr, s, 'append')
                return st2
        return super().stmt(s, st, fr, ctl)

    def _assign_pre(self, st, tgt, val, hv, fr):
        """assign with a pre-computed handler value (parallel assignment)"""
        if isinstance(tgt, ast.Subscript) and self.is_buf(tgt.value, fr):
            st = BufferAnalysis.assign1(self, st, tgt, val, fr)
            L = fr.bufenv[tgt.value.id]
            idx = self.iexpr(tgt.slice, fr)
            K = self.kvars[L]

            def f(fl, z):
                if idx is None:
                    z.forget(K)
                    z.le('0', K, 1)
                    return (fl, z)
                x, c = idx
                if hv is not None:
                    dx, dc = hv[1]
                    ok = z.entails(dx, x, c - dc) and z.entails(x, dx, dc - c)
                    self.rec('O4-content', fr, tgt, 'OK' if ok else 'FAIL(depth != slot)', '%s %s' % (fl, z.show()))
                    if ok:
                        if z.entails(x, K, 1 - c) and z.entails(K, x, c - 1):
                            z.assign(K, x, c)
                            return (fl, z)
                        if z.entails(x, K, -c) or z.entails(K, x, c - 2):
                            return (fl, z)
                else:
                    if z.entails(K, x, c - 1):
                        return (fl, z)
                z.forget(K)
                z.le('0', K, 1)
                z.le(K, x, c - 1)
                return (fl, z)
            return st.map(f)
        if dotted(tgt) is not None:
            st = self.kill_facts(st, fr, path=dotted(tgt))
        if self.is_cursor(tgt, fr):
            def f(fl, z):
                self.set_h('o:' + CUR, 'D:' + CUR, hv, fl, z)
                return (fl, z)
            return st.map(f)
        if isinstance(tgt, ast.Name) and tgt.id in self.hlocals.get(fr.func, ()):
            def f(fl, z):
                self.set_h(self.okey(fr, tgt.id), self.dvar(fr, tgt.id), hv, fl, z)
                return (fl, z)
            return st.map(f)
        return BufferAnalysis.assign1(self, st, tgt, val, fr)

    # ------------------------------------------------------------ guards: learning that a handler answered TRAN
    def guard(self, st, test, pol, fr):
        st = super().guard(st, test, pol, fr)
        if isinstance(test, ast.Compare) and len(test.ops) == 1:
            l, op, r = test.left, type(test.ops[0]), test.comparators[0]
            sc = status_const(r) or status_const(l)
            other = l if status_const(r) else r
            learns = False
            if sc == 'TRAN':
                if op in (ast.Eq, ast.Is, ast.GtE) and pol:
                    learns = True
                if op in (ast.NotEq, ast.IsNot, ast.Lt) and not pol:
                    learns = True
            direct = isinstance(other, ast.Call) and id(other) in self.sig
            if learns:
                def f(fl, z):
                    if direct or (isinstance(other, ast.Name) and fl.get('o:last') == '%s.%s' % (fr.prefix, other.id)):
                        self.rebase(fl, z)
                    return (fl, z)
                st = st.map(f)
        return st

    def inline(self, st, tgt, call, fr):
        res = super().inline(st, tgt, call, fr)
        cfr = self.frames[self.callees[call.func.attr]]

        def f(fl, z):
            for k in list(fl):
                if k.startswith('o:%s.' % cfr.prefix):
                    del fl[k]
            for v in self.hlocals.get(cfr.func, ()):
                z.forget(self.dvar(cfr, v))
            if fl.get('o:last', '').startswith(cfr.prefix + '.'):
                fl['o:last'] = ''
            return (fl, z)
        return res.map(f)

    # ------------------------------------------------------------ driver
    def run(self):
        fr = self.frames[self.entry]
        from .zone import Zone
        z = Zone(self.names)
        for K in self.kvars.values():
            z.assign(K, '0', -1)
        fl = {}
        if self.cursor_at_entry:
            fl['o:' + CUR] = 'T'
            z.assign('D:' + CUR, '0', 0)
        rets = []
        self.block(self.entry.node.body, St({tuple(sorted(fl.items())): z}), fr, {'returns': rets})
        return [self.obl[k] for k in self.order]
