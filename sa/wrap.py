"""Decorator-wrapper discipline (rule family WRAP) and override delegation (DELEGATE)."""
import ast

from .model import AnalysisError, walk_shallow, dotted, norm
from .util import cfg_of, local_defs
from .cfg import INF

INSTRUMENTATION_NS = ('rtc', 'full', 'last_live_trace', 'spied_on', 'state_name', 'state_fn', 'instrumented')


def in_namespace(path):
    head = path.split('.')[0]
    return any(head == p or head.startswith(p) for p in INSTRUMENTATION_NS)


def fn_calls_in(node, fnp):
    return [c for c in node.calls() if isinstance(c.func, ast.Name) and c.func.id == fnp] if node.kind not in ('entry', 'exit', 'xexit', 'def') else []


class WrapperInfo:
    pass


def zero_path_witness(g, callnodes):
    """a path entry -> exit that avoids every wrapped-call node: list of (test text, label)"""
    avoid = set(callnodes)
    prev = {g.entry: None}
    todo = [g.entry]
    while todo:
        n = todo.pop(0)
        if n is g.exit:
            break
        for m, lab in g.succ[n]:
            if m in avoid or m in prev:
                continue
            prev[m] = (n, lab)
            todo.append(m)
    if g.exit not in prev:
        return None
    path = []
    n = g.exit
    while prev[n] is not None:
        p, lab = prev[n]
        if p.kind == 'test':
            path.append((norm(p.ast), lab))
        n = p
    path.reverse()
    return path


def analyse_wrapper(model, cg, factory):
    inner = cg.factories[factory]
    fnp = factory.params[0]
    g = cfg_of(inner)
    info = WrapperInfo()
    info.factory, info.inner, info.cfg, info.fnp = factory, inner, g, fnp
    callnodes = [n for n in g.nodes if fn_calls_in(n, fnp)]
    info.callnodes = callnodes
    info.calls = [c for n in callnodes for c in fn_calls_in(n, fnp)]
    # calls of fn from nested helpers of the inner function are an unknown idiom
    for h in inner.nested.values():
        for c in walk_shallow(h.node):
            if isinstance(c, ast.Call) and isinstance(c.func, ast.Name) and c.func.id == fnp:
                raise AnalysisError('%s calls the wrapped function from a nested helper: unknown idiom' % inner.qualname)
    w = lambda n: len(fn_calls_in(n, fnp))
    info.count = g.count_on_paths(w)
    info.witness = zero_path_witness(g, callnodes) if info.count and info.count[0] == 0 else None
    # ---- forwarding of arguments
    params = list(inner.params)
    info.forward = []
    defs = local_defs(inner.node)
    for c in info.calls:
        ok = True
        why = ''
        if c.keywords:
            ok, why = False, 'keyword arguments'
        elif len(c.args) == 0 or not (isinstance(c.args[0], ast.Name) and c.args[0].id == params[0]):
            ok, why = False, 'first argument is not the wrapper\'s own receiver'
        else:
            rest = c.args[1:]
            if inner.vararg:
                # spy_on: `e` is taken from *args
                for a in rest:
                    src = a
                    if isinstance(a, ast.Name):
                        ds = defs.get(a.id, [])
                        good = ds and all(isinstance(d, ast.Subscript) and isinstance(d.value, ast.Name) and d.value.id == inner.vararg for d in ds if not isinstance(d, tuple))
                        if not good:
                            ok, why = False, 'argument %s is not taken from *%s' % (a.id, inner.vararg)
                    elif isinstance(a, ast.Starred) and isinstance(a.value, ast.Name) and a.value.id == inner.vararg:
                        pass
                    else:
                        ok, why = False, 'argument %s' % norm(a)
            else:
                want = params[1:]
                got = [a.id if isinstance(a, ast.Name) else None for a in rest]
                if got != want:
                    ok, why = False, 'forwards (%s), its own parameters are (%s)' % (', '.join(norm(a) for a in rest), ', '.join(want))
                else:
                    # the forwarded parameters are not rebound before the call
                    for p in want:
                        if p in defs:
                            ok, why = False, 'parameter %s is rebound inside the wrapper' % p
        info.forward.append((c, ok, why))
    # ---- result forwarding
    info.results = []
    for n in callnodes:
        st = n.ast
        for c in fn_calls_in(n, fnp):
            if isinstance(st, ast.Return) and st.value is c:
                info.results.append((c, 'returned', True, ''))
            elif isinstance(st, ast.Assign) and st.value is c and len(st.targets) == 1 and isinstance(st.targets[0], ast.Name):
                var = st.targets[0].id
                reach = g.reachable(n)
                rets = [m for m in reach if m.kind == 'stmt' and isinstance(m.ast, ast.Return)]
                falls = [p for p, lab in g.pred[g.exit] if lab != 'return' and (p in reach)]
                good = bool(rets) and all(isinstance(m.ast.value, ast.Name) and m.ast.value.id == var for m in rets) and not falls
                redefs = [m for m in reach if m is not n and m.kind == 'stmt' and isinstance(m.ast, (ast.Assign, ast.AugAssign)) and
                          any(isinstance(t, ast.Name) and t.id == var for t in (m.ast.targets if isinstance(m.ast, ast.Assign) else [m.ast.target]))]
                # a second wrapped call on a disjoint branch assigning the same variable is fine
                redefs = [m for m in redefs if m not in callnodes]
                info.results.append((c, 'bound to %s' % var, good and not redefs,
                                     '' if good and not redefs else 'the result bound to %s is not what every following path returns' % var))
            elif isinstance(st, ast.Expr) and st.value is c:
                info.results.append((c, 'dropped', None, ''))
            else:
                info.results.append((c, 'embedded', None, 'the wrapped call is embedded in %s' % norm(st)))
    return info


def returns_value(f):
    for n in walk_shallow(f.node):
        if isinstance(n, ast.Return) and n.value is not None and not (isinstance(n.value, ast.Constant) and n.value.value is None):
            return True
    return False


def delegation_calls(node, f):
    """calls in a CFG node that run the same-named method of a base class: super().m(...) or Base.m(self, ...)"""
    out = []
    if node.kind in ('entry', 'exit', 'xexit', 'def'):
        return out
    for c in node.calls():
        if isinstance(c.func, ast.Attribute) and c.func.attr == f.name:
            r = c.func.value
            if isinstance(r, ast.Call) and isinstance(r.func, ast.Name) and r.func.id == 'super':
                out.append((c, 'super'))
            elif isinstance(r, ast.Name) and r.id[:1].isupper() and c.args and isinstance(c.args[0], ast.Name) and c.args[0].id == f.params[0]:
                out.append((c, r.id))
    return out
