"""Resolved call graph of the miros package.

Resolution (all idioms visible in this code base):
  self.m(...)            class-hierarchy analysis from the static class of self
  super().m(...)         next definition in the MRO
  Class.m(self, ...)     that definition
  f(...)                 nested function / module function / imported package function / class constructor
  fn(...) in a wrapper   the function(s) the decorator factory was applied to (decorator chains compose inside-out)
  x.m(...), self.a.m()   through the inferred type of the receiver (constructor assignments); unknown receivers
                         fall back to every package method of that name (sound over-approximation)
  Thread(target=X, ...)  a *spawn* edge, not a call edge
  h(self, e)             a call through a state-handler value: edge to the external node HANDLER
"""
import ast

from .model import AnalysisError, walk_shallow, dotted, norm

TRANSPARENT_DECORATORS = {'wraps', 'staticmethod', 'classmethod', 'contextmanager', 'property'}

# external callables that never call back into the package
EXTERNAL_TYPES = {'deque', 'Queue', 'PriorityQueue', 'Thread', 'ThreadEvent', 'RLock', 'Lock', 'namedtuple',
                  'OrderedDict', 'dict', 'list', 'set', 'Attribute'}

HANDLER = '<state-handler>'
CALLBACK = '<registered-callback>'


class Application:
    """decorator factory W applied to a function: inside W's inner function, `fn` denotes `target`"""

    def __init__(self, factory, inner, target, raw, cls):
        self.factory = factory
        self.inner = inner
        self.target = target   # Func called by fn(...)
        self.raw = raw         # the undecorated function at the bottom of the chain
        self.cls = cls


class CallGraph:
    def __init__(self, model):
        self.m = model
        self.edges = {}        # Func -> [(callee, call node, how)]
        self.spawns = []       # (Func, [target Funcs], call node)
        self.unresolved = {}   # Func -> [call node]
        self.external = {}     # Func -> [(name, call node)]
        self.applications = [] # Application
        self.entry_of = {}     # raw Func -> Func actually bound to the name (outermost wrapper inner)
        self.factories = {}    # factory Func -> inner Func
        self.field_types = {}  # (class name, attr) -> set of type names
        self._find_factories()
        self._bind_decorators()
        self._infer_field_types()
        for f in self.m.all_funcs():
            self._resolve_func(f)

    # ------------------------------------------------------------------ decorators
    def _find_factories(self):
        for f in self.m.all_funcs():
            if len(f.params) != 1 or not f.nested:
                continue
            rets = [n for n in walk_shallow(f.node) if isinstance(n, ast.Return)]
            inner = None
            for r in rets:
                if isinstance(r.value, ast.Name) and r.value.id in f.nested:
                    inner = f.nested[r.value.id]
            if inner is not None:
                self.factories[f] = inner

    def resolve_decorator(self, d, f):
        """-> factory Func | 'transparent' | None (unknown)"""
        expr = d.func if isinstance(d, ast.Call) else d
        name = expr.id if isinstance(expr, ast.Name) else (expr.attr if isinstance(expr, ast.Attribute) else None)
        if name in TRANSPARENT_DECORATORS:
            return 'transparent'
        if name is None:
            return None
        # defined in the class body being built, in the module, or imported from a package module
        cands = []
        if f.cls is not None and name in f.cls.methods:
            cands.append(f.cls.methods[name])
        q = f.module.name + '.' + name
        if q in self.m.funcs:
            cands.append(self.m.funcs[q])
        imp = self.m.imports.get((f.module.name, name))
        if imp and imp[0].startswith('miros.'):
            q2 = imp[0].split('.', 1)[1] + '.' + (imp[1] or name)
            if q2 in self.m.funcs:
                cands.append(self.m.funcs[q2])
        # a decorator defined in a base class body is *not* visible by bare name in a subclass body; module only.
        for c in cands:
            if c in self.factories:
                return c
        return None

    def _bind_decorators(self):
        for f in self.m.all_funcs():
            if not f.decorators:
                continue
            current = f
            chain = []
            for d in reversed(f.decorators):
                r = self.resolve_decorator(d, f)
                if r == 'transparent':
                    continue
                if r is None:
                    chain.append(('unknown', d))
                    continue
                inner = self.factories[r]
                self.applications.append(Application(r, inner, current, f, f.cls))
                current = inner
                chain.append((r, d))
            if current is not f:
                self.entry_of[f] = current
            f.decorator_chain = chain

    def entry(self, f):
        """what calling the *name* of f runs first"""
        return self.entry_of.get(f, f)

    def applications_of(self, factory):
        return [a for a in self.applications if a.factory is factory]

    def factory_of_inner(self, inner):
        for fac, inn in self.factories.items():
            if inn is inner:
                return fac
        return None

    # ------------------------------------------------------------------ receiver types
    def _ctor_type(self, val, f):
        """type name produced by a constructor-like call expression, or None"""
        if not isinstance(val, ast.Call):
            return None
        fn = val.func
        name = fn.id if isinstance(fn, ast.Name) else (fn.attr if isinstance(fn, ast.Attribute) else None)
        if name is None:
            return None
        singles = self.m.singleton_factories()
        if name in singles:
            return singles[name]
        if name in self.m.classes:
            return name
        if name in EXTERNAL_TYPES:
            return name
        # self.__class__.StateMethodBlueprint(...)
        for k, c in self.m.classes.items():
            if k.endswith('.' + name):
                return k
        return None

    def _infer_field_types(self):
        for f in self.m.all_funcs():
            oc = f.owner_class
            if oc is None:
                continue
            for n in walk_shallow(f.node):
                if isinstance(n, ast.Assign):
                    for t in n.targets:
                        d = dotted(t)
                        if d and d.startswith('self.') and d.count('.') == 1:
                            attr = d.split('.', 1)[1]
                            ty = self._ctor_type(n.value, f)
                            if ty is None and isinstance(n.value, ast.Attribute):
                                src = dotted(n.value)
                                if src and src.startswith('self.') and src.count('.') == 1:
                                    ty = ('alias', src.split('.', 1)[1])
                            self.field_types.setdefault((oc.name, attr), set()).add(ty)

    def types_of_field(self, cls, attr, _seen=None):
        """type names a field may hold, looking through the class hierarchy (base and sub classes)"""
        _seen = _seen or set()
        out = set()
        ks = self.m.mro(cls) + self.m.subclasses(cls)
        for k in ks:
            for ty in self.field_types.get((k.name, attr), ()):
                if isinstance(ty, tuple):
                    if (k.name, ty[1]) not in _seen:
                        _seen.add((k.name, ty[1]))
                        out |= self.types_of_field(cls, ty[1], _seen)
                else:
                    out.add(ty)
        return out

    def local_types(self, f):
        out = {}
        for n in walk_shallow(f.node):
            if isinstance(n, ast.Assign) and len(n.targets) == 1 and isinstance(n.targets[0], ast.Name):
                ty = self._ctor_type(n.value, f)
                out.setdefault(n.targets[0].id, set()).add(ty)
        return out

    # ------------------------------------------------------------------ resolution
    def self_name(self, f):
        """name of the receiver variable visible in f (own first parameter, or the enclosing method's)"""
        g = f
        while g is not None:
            if g.cls is not None and g.params and not self._is_static(g):
                if self.factories.get(g) is not None:
                    return None
                return g.params[0]
            g = g.parent
        return None

    def _is_static(self, f):
        for d in f.decorators:
            if isinstance(d, ast.Name) and d.id == 'staticmethod':
                return True
        return False

    def self_class_candidates(self, f):
        """classes `self` may denote in f: the owner class, or for wrapper inner functions the classes
        the decorator is applied in"""
        fac = self.factory_of_inner(f)
        if fac is not None:
            cs = []
            for a in self.applications_of(fac):
                if a.cls is not None and a.cls not in cs:
                    cs.append(a.cls)
            return cs
        oc = f.owner_class
        g = f
        # a nested helper of a wrapper inner function
        while g is not None and oc is not None and self.factory_of_inner(g) is None:
            g = g.parent
        if g is not None and self.factory_of_inner(g) is not None:
            return self.self_class_candidates(g)
        return [oc] if oc is not None else []

    def receiver_var(self, f):
        """the variable that denotes the processor object in f"""
        fac = self.factory_of_inner(f)
        if fac is not None:
            return f.params[0] if f.params else None
        g = f
        while g is not None:
            if self.factory_of_inner(g) is not None:
                return g.params[0] if g.params else None
            if g.cls is not None and self.factories.get(g) is None and not self._is_static(g):
                return g.params[0] if g.params else None
            g = g.parent
        return None

    def methods_named(self, name):
        out = []
        for c in self.m.classes.values():
            if name in c.methods and c.methods[name] not in out:
                out.append(c.methods[name])
        return out

    def resolve_callable_ref(self, expr, f):
        """Funcs a callable-valued *reference* expression may denote (not a call)"""
        if isinstance(expr, ast.Name):
            g = f
            while g is not None:
                if expr.id in g.nested:
                    return [self.entry(g.nested[expr.id])]
                g = g.parent
            # parameter of a nested helper: look at the helper's call sites in the enclosing function
            g = f
            while g is not None:
                if expr.id in g.params and g.parent is not None:
                    outs = []
                    idx = g.params.index(expr.id)
                    for n in walk_shallow(g.parent.node):
                        if isinstance(n, ast.Call) and isinstance(n.func, ast.Name) and n.func.id == g.name:
                            arg = None
                            for kw in n.keywords:
                                if kw.arg == expr.id:
                                    arg = kw.value
                            if arg is None and idx < len(n.args):
                                arg = n.args[idx]
                            if arg is not None:
                                outs += self.resolve_callable_ref(arg, g.parent)
                    return outs
                g = g.parent
            q = f.module.name + '.' + expr.id
            if q in self.m.funcs:
                return [self.entry(self.m.funcs[q])]
            return []
        if isinstance(expr, ast.Attribute):
            rv = self.receiver_var(f)
            if isinstance(expr.value, ast.Name) and rv and expr.value.id == rv:
                outs = []
                for c in self.self_class_candidates(f):
                    for impl in self.m.method_impls(c, expr.attr):
                        e = self.entry(impl)
                        if e not in outs:
                            outs.append(e)
                return outs
        return []

    def _resolve_func(self, f):
        edges = []
        self.edges[f] = edges
        rv = self.receiver_var(f)
        ltypes = None
        fac = self.factory_of_inner(f)
        fn_param = fac.params[0] if fac is not None else None
        # a nested helper inside a wrapper inner function may also call fn
        g = f.parent
        while fn_param is None and g is not None:
            fc = self.factory_of_inner(g)
            if fc is not None:
                fac, fn_param = fc, fc.params[0]
            g = g.parent
        for c in [n for n in walk_shallow(f.node) if isinstance(n, ast.Call)]:
            fn = c.func
            # ---- Thread(target=...)
            if isinstance(fn, ast.Name) and fn.id == 'Thread':
                tgt = None
                for kw in c.keywords:
                    if kw.arg == 'target':
                        tgt = kw.value
                if tgt is None and c.args:
                    tgt = c.args[1] if len(c.args) > 1 else None
                targets = self.resolve_callable_ref(tgt, f) if tgt is not None else []
                self.spawns.append((f, targets, c))
                continue
            if isinstance(fn, ast.Name):
                name = fn.id
                if fn_param is not None and name == fn_param:
                    for a in self.applications_of(fac):
                        edges.append((a.target, c, 'wrapped'))
                    continue
                hit = False
                g = f
                while g is not None:
                    if name in g.nested:
                        edges.append((self.entry(g.nested[name]), c, 'nested'))
                        hit = True
                        break
                    g = g.parent
                if hit:
                    continue
                # a parameter or local holding a callable
                if self._is_local_callable(name, f):
                    refs = self.resolve_callable_ref(fn, f)
                    if refs:
                        for r in refs:
                            edges.append((r, c, 'param'))
                    else:
                        edges.append((self._classify_value_call(c, f), c, 'value'))
                    continue
                q = f.module.name + '.' + name
                if q in self.m.funcs:
                    edges.append((self.entry(self.m.funcs[q]), c, 'module'))
                    continue
                imp = self.m.imports.get((f.module.name, name))
                if imp and imp[0].startswith('miros.'):
                    q2 = imp[0].split('.', 1)[1] + '.' + (imp[1] or name)
                    if q2 in self.m.funcs:
                        edges.append((self.entry(self.m.funcs[q2]), c, 'import'))
                        continue
                ty = self._ctor_type(c, f)
                if ty is not None and ty in self.m.classes:
                    init = self.m.lookup_method(self.m.classes[ty], '__init__')
                    if init is not None:
                        edges.append((init, c, 'ctor'))
                    continue
                self.external.setdefault(f, []).append((name, c))
                continue
            if isinstance(fn, ast.Attribute):
                recv = fn.value
                meth = fn.attr
                # super().m()
                if isinstance(recv, ast.Call) and isinstance(recv.func, ast.Name) and recv.func.id == 'super':
                    oc = f.owner_class
                    if oc is None:
                        self.unresolved.setdefault(f, []).append(c)
                        continue
                    targets = []
                    # any concrete class of self whose MRO contains oc
                    for k in [oc] + self.m.subclasses(oc):
                        t = self.m.lookup_method(k, meth, after=oc)
                        if t is not None and self.entry(t) not in targets:
                            targets.append(self.entry(t))
                    for t in targets:
                        edges.append((t, c, 'super'))
                    if not targets:
                        self.external.setdefault(f, []).append(('super().' + meth, c))
                    continue
                # self.m()
                if isinstance(recv, ast.Name) and rv and recv.id == rv:
                    cands = self.self_class_candidates(f)
                    targets = []
                    for k in cands:
                        for impl in self.m.method_impls(k, meth):
                            e = self.entry(impl)
                            if e not in targets:
                                targets.append(e)
                    if targets:
                        for t in targets:
                            edges.append((t, c, 'self'))
                        continue
                    # attribute holding a callable (live_spy_callback, temp.fun is deeper)
                    edges.append((self._classify_value_call(c, f), c, 'value'))
                    continue
                # Class.m(self, ...)
                if isinstance(recv, ast.Name) and recv.id in self.m.classes:
                    t = self.m.lookup_method(self.m.classes[recv.id], meth)
                    if t is not None:
                        # an explicit Class.m bypasses decorators? no: the class attribute is the decorated object
                        edges.append((self.entry(t), c, 'class'))
                        continue
                # typed receivers
                tys = self._receiver_types(recv, f)
                if tys is None:
                    if ltypes is None:
                        ltypes = self.local_types(f)
                    if isinstance(recv, ast.Name) and recv.id in ltypes and None not in ltypes[recv.id]:
                        tys = ltypes[recv.id]
                if tys is not None:
                    hit = False
                    for ty in tys:
                        if ty in self.m.classes:
                            for impl in self.m.method_impls(self.m.classes[ty], meth):
                                edges.append((self.entry(impl), c, 'typed'))
                                hit = True
                    if not hit:
                        self.external.setdefault(f, []).append((norm(fn), c))
                    continue
                # handler-valued / callback-valued attribute calls
                d = dotted(fn)
                if d and (d.endswith('.temp.fun') or d.endswith('.state.fun')):
                    edges.append((HANDLER, c, 'handler'))
                    continue
                # module attribute (time.sleep, uuid.uuid4, re.search, json.dumps ...)
                if isinstance(recv, ast.Name) and (f.module.name, recv.id) in self.m.imports \
                        and not self.m.imports[(f.module.name, recv.id)][0].startswith('miros'):
                    self.external.setdefault(f, []).append((norm(fn), c))
                    continue
                # unknown receiver: every package method of that name
                cands = self.methods_named(meth)
                if cands:
                    for t in cands:
                        edges.append((self.entry(t), c, 'by-name'))
                else:
                    self.external.setdefault(f, []).append((norm(fn), c))
                continue
            # call through a subscript / call result: tpath[i](self, e)
            edges.append((self._classify_value_call(c, f), c, 'value'))

    def _is_local_callable(self, name, f):
        g = f
        while g is not None:
            if name in g.params or name == g.vararg or name == g.kwarg:
                return True
            for n in walk_shallow(g.node):
                if isinstance(n, ast.Name) and n.id == name and isinstance(n.ctx, ast.Store):
                    return True
            g = g.parent
        return False

    def _classify_value_call(self, c, f):
        """a call whose callee is a value: handler if its first argument is the processor object"""
        rv = self.receiver_var(f)
        if c.args and isinstance(c.args[0], ast.Name) and rv and c.args[0].id == rv:
            return HANDLER
        if c.args and isinstance(c.args[0], ast.Name) and c.args[0].id in ('self', 'chart'):
            return HANDLER
        return CALLBACK

    def _receiver_types(self, recv, f):
        d = dotted(recv)
        rv = self.receiver_var(f)
        if d and rv and d.startswith(rv + '.') and d.count('.') == 1:
            attr = d.split('.', 1)[1]
            tys = set()
            for k in self.self_class_candidates(f):
                tys |= self.types_of_field(k, attr)
            if tys and None not in tys:
                return tys
        return None

    # ------------------------------------------------------------------ queries
    def callees(self, f):
        return [t for t, _c, _h in self.edges.get(f, []) if not isinstance(t, str)]

    def reach(self, roots, stop=()):
        """Funcs reachable over call edges from roots (roots included)"""
        seen = []
        todo = list(roots)
        stop = set(stop)
        while todo:
            f = todo.pop()
            if f in seen or isinstance(f, str):
                continue
            seen.append(f)
            if f in stop:
                continue
            todo.extend(self.callees(f))
        return seen

    def calls_handler(self, f):
        return any(t == HANDLER for t, _c, _h in self.edges.get(f, []))

    def callers(self, target):
        out = []
        for f, es in self.edges.items():
            for t, c, h in es:
                if t is target:
                    out.append((f, c, h))
        return out

    def stats(self):
        n = sum(len(v) for v in self.edges.values())
        return {'functions': len(self.edges), 'call_edges': n, 'spawn_sites': len(self.spawns),
                'decorator_applications': len(self.applications), 'factories': len(self.factories),
                'unresolved': sum(len(v) for v in self.unresolved.values())}
