"""Statement-level control-flow graph for one function, with the path queries the rules use.

One node per simple statement, per branch test, per loop header, per `with` header and per
`except` clause.  Edges carry a label: 'next', 'true', 'false', 'iter', 'done', 'back', 'exc',
'break', 'continue', 'return', 'raise'.  There is a normal exit and an exceptional exit.

Exceptions are modelled only where the source handles them: every node created inside a `try`
body has an 'exc' edge to every handler of that try (coarse, adds paths only, therefore sound
for must-rules).  Calls are not assumed to raise otherwise.
"""
import ast
from .model import AnalysisError, walk_shallow, norm

INF = float('inf')


class Node:
    __slots__ = ('id', 'kind', 'ast', 'stmt', 'label')

    def __init__(self, id, kind, astnode, stmt, label=''):
        self.id = id
        self.kind = kind      # entry exit xexit stmt test loop for with except def
        self.ast = astnode    # the expression/statement this node evaluates
        self.stmt = stmt      # the enclosing statement
        self.label = label

    @property
    def lineno(self):
        return getattr(self.ast, 'lineno', None) or getattr(self.stmt, 'lineno', 0)

    def exprs(self):
        """Expression roots evaluated at this node."""
        k = self.kind
        if k in ('entry', 'exit', 'xexit', 'def'):
            return []
        if k == 'test':
            return [self.ast]
        if k == 'for':
            return [self.stmt.iter]
        if k == 'with':
            out = []
            for it in self.stmt.items:
                out.append(it.context_expr)
            return out
        if k == 'except':
            return [self.ast.type] if self.ast.type is not None else []
        return [self.ast]

    def walk(self):
        """All AST nodes evaluated at this CFG node (no descent into nested defs/lambdas)."""
        for e in self.exprs():
            yield e
            yield from walk_shallow(e)

    def calls(self):
        out = [n for n in self.walk() if isinstance(n, ast.Call)]
        out.sort(key=lambda c: (c.lineno, c.col_offset))
        return out

    def text(self):
        if self.kind in ('entry', 'exit', 'xexit'):
            return '<%s>' % self.kind
        if self.kind == 'test':
            return 'test ' + norm(self.ast)
        if self.kind == 'for':
            return 'for %s in %s' % (norm(self.stmt.target), norm(self.stmt.iter))
        if self.kind == 'with':
            return 'with ' + ', '.join(norm(i.context_expr) for i in self.stmt.items)
        if self.kind == 'except':
            return 'except ' + (norm(self.ast.type) if self.ast.type is not None else '')
        if self.kind == 'def':
            return 'def ' + self.ast.name
        return norm(self.ast)

    def __repr__(self):
        return '<N%d %s L%s %s>' % (self.id, self.kind, self.lineno, self.text()[:50])


SUPPORTED_SIMPLE = (ast.Assign, ast.AugAssign, ast.AnnAssign, ast.Expr, ast.Pass, ast.Global, ast.Nonlocal,
                    ast.Import, ast.ImportFrom, ast.Delete)


def const_truth(test):
    if isinstance(test, ast.Constant):
        return bool(test.value)
    return None


class CFG:
    def __init__(self, fnode):
        self.fnode = fnode
        self.nodes = []
        self.succ = {}
        self.pred = {}
        self._loops = []     # stack of (head node, break list)
        self._tries = []     # stack of handler-entry node lists
        self.back_edges = set()
        self.entry = self._new('entry', fnode, fnode)
        self.exit = self._new('exit', fnode, fnode)
        self.xexit = self._new('xexit', fnode, fnode)
        self.by_stmt = {}    # id(ast stmt) -> first node
        out = self._block(fnode.body, [(self.entry, 'next')])
        self._connect(out, self.exit)
        self._dom = None
        self._pdom = None

    # -------------------------------------------------------------- construction
    def _new(self, kind, astnode, stmt):
        n = Node(len(self.nodes), kind, astnode, stmt)
        self.nodes.append(n)
        self.succ[n] = []
        self.pred[n] = []
        return n

    def _edge(self, a, b, label):
        self.succ[a].append((b, label))
        self.pred[b].append((a, label))

    def _connect(self, dangling, node):
        for a, label in dangling:
            self._edge(a, node, label)

    def _mk(self, kind, astnode, stmt, dangling):
        n = self._new(kind, astnode, stmt)
        self._connect(dangling, n)
        self.by_stmt.setdefault(id(stmt), n)
        # inside a try body: may transfer to each handler
        for handlers in self._tries:
            for h in handlers:
                self._edge(n, h, 'exc')
        return n

    def _block(self, stmts, dangling):
        for st in stmts:
            dangling = self._stmt(st, dangling)
        return dangling

    def _stmt(self, st, dangling):
        if isinstance(st, SUPPORTED_SIMPLE):
            n = self._mk('stmt', st, st, dangling)
            return [(n, 'next')]
        if isinstance(st, (ast.FunctionDef, ast.AsyncFunctionDef, ast.ClassDef)):
            n = self._mk('def', st, st, dangling)
            return [(n, 'next')]
        if isinstance(st, ast.Return):
            n = self._mk('stmt', st, st, dangling)
            self._edge(n, self.exit, 'return')
            return []
        if isinstance(st, ast.Raise):
            n = self._mk('stmt', st, st, dangling)
            if not self._tries:
                self._edge(n, self.xexit, 'raise')
            return []
        if isinstance(st, ast.Assert):
            n = self._mk('stmt', st, st, dangling)
            if not self._tries:
                self._edge(n, self.xexit, 'raise')
            return [(n, 'next')]
        if isinstance(st, ast.If):
            t = self._mk('test', st.test, st, dangling)
            truth = const_truth(st.test)
            a = self._block(st.body, [(t, 'true')] if truth is not False else [])
            b = self._block(st.orelse, [(t, 'false')] if truth is not True else [])
            return a + b
        if isinstance(st, ast.While):
            t = self._mk('test', st.test, st, dangling)
            t.label = 'loop'
            truth = const_truth(st.test)
            self._loops.append((t, []))
            body_out = self._block(st.body, [(t, 'true')] if truth is not False else [])
            _, breaks = self._loops.pop()
            for a, _l in body_out:
                # keep the polarity of the edge (an `if` whose false side falls off the loop body); remember that it is a back edge
                self._edge(a, t, _l)
                self.back_edges.add((a, t))
            out = self._block(st.orelse, [(t, 'false')] if truth is not True else [])
            return out + breaks
        if isinstance(st, (ast.For, ast.AsyncFor)):
            t = self._mk('for', st, st, dangling)
            t.label = 'loop'
            self._loops.append((t, []))
            body_out = self._block(st.body, [(t, 'iter')])
            _, breaks = self._loops.pop()
            for a, _l in body_out:
                # keep the polarity of the edge (an `if` whose false side falls off the loop body); remember that it is a back edge
                self._edge(a, t, _l)
                self.back_edges.add((a, t))
            out = self._block(st.orelse, [(t, 'done')])
            return out + breaks
        if isinstance(st, ast.Break):
            n = self._mk('stmt', st, st, dangling)
            if not self._loops:
                raise AnalysisError('break outside loop')
            self._loops[-1][1].append((n, 'break'))
            return []
        if isinstance(st, ast.Continue):
            n = self._mk('stmt', st, st, dangling)
            if not self._loops:
                raise AnalysisError('continue outside loop')
            self._edge(n, self._loops[-1][0], 'continue')
            return []
        if isinstance(st, (ast.With, ast.AsyncWith)):
            w = self._mk('with', st, st, dangling)
            return self._block(st.body, [(w, 'next')])
        if isinstance(st, ast.Try) or type(st).__name__ == 'TryStar':
            handlers = []
            for h in st.handlers:
                hn = self._new('except', h, st)
                handlers.append(hn)
            # the handler nodes themselves are inside any *enclosing* try
            for enclosing in self._tries:
                for hn in handlers:
                    for eh in enclosing:
                        self._edge(hn, eh, 'exc')
            self._tries.append(handlers)
            first_dangling = dangling
            # an (empty) marker so an exception before the first statement is not needed
            body_out = self._block(st.body, first_dangling)
            self._tries.pop()
            else_out = self._block(st.orelse, body_out) if st.orelse else body_out
            outs = list(else_out)
            for h, hn in zip(st.handlers, handlers):
                outs += self._block(h.body, [(hn, 'next')])
            if st.finalbody:
                outs = self._block(st.finalbody, outs)
            return outs
        raise AnalysisError('unsupported statement kind %s at line %s' % (type(st).__name__, getattr(st, 'lineno', '?')))

    # -------------------------------------------------------------- basic queries
    def reachable(self, start=None, avoiding=(), forward=True, edge_ok=None):
        start = [self.entry] if start is None else (list(start) if isinstance(start, (list, set, tuple)) else [start])
        avoid = set(avoiding)
        seen = set()
        todo = [s for s in start]
        adj = self.succ if forward else self.pred
        while todo:
            n = todo.pop()
            if n in seen:
                continue
            seen.add(n)
            for m, lab in adj[n]:
                if m in avoid or m in seen:
                    continue
                if edge_ok is not None:
                    e = (n, m, lab) if forward else (m, n, lab)
                    if not edge_ok(*e):
                        continue
                todo.append(m)
        return seen

    def exists_path(self, a, b, avoiding=(), edge_ok=None):
        """Is there a path a ->+ b (at least one edge) that does not pass through `avoiding`?"""
        avoid = set(avoiding) - {b}
        seen = set()
        todo = [m for m, lab in self.succ[a] if (edge_ok is None or edge_ok(a, m, lab))]
        while todo:
            n = todo.pop()
            if n in seen or n in avoid:
                continue
            if n is b:
                return True
            seen.add(n)
            for m, lab in self.succ[n]:
                if edge_ok is None or edge_ok(n, m, lab):
                    todo.append(m)
        return False

    def _dominators(self, forward=True, root=None):
        root = root or (self.entry if forward else self.exit)
        adj_pred = self.pred if forward else self.succ
        reach = self.reachable(root, forward=forward)
        dom = {n: set(reach) for n in reach}
        dom[root] = {root}
        changed = True
        order = [n for n in self.nodes if n in reach]
        if not forward:
            order.reverse()
        while changed:
            changed = False
            for n in order:
                if n is root:
                    continue
                ps = [p for p, _ in adj_pred[n] if p in reach]
                if ps:
                    new = set.intersection(*(dom[p] for p in ps)) | {n}
                else:
                    new = {n}
                if new != dom[n]:
                    dom[n] = new
                    changed = True
        return dom

    def dominates(self, a, b):
        """every path entry -> b passes through a"""
        if self._dom is None:
            self._dom = self._dominators(True)
        return b in self._dom and a in self._dom[b]

    def postdominates(self, a, b):
        """every path b -> normal exit passes through a (b must be able to reach the exit)"""
        if self._pdom is None:
            self._pdom = self._dominators(False)
        return b in self._pdom and a in self._pdom[b]

    def nodes_where(self, pred):
        return [n for n in self.nodes if pred(n)]

    def live_nodes(self):
        return self.reachable(self.entry)

    # -------------------------------------------------------------- path counting
    def count_on_paths(self, weight, start=None, end=None, edge_ok=None):
        """(min, max) of the summed `weight(node)` over all paths start -> end.
        max is INF when a node with positive weight lies on a cycle that is on such a path.
        Returns None when no path exists."""
        start = start or self.entry
        end = end or self.exit
        if end is not self.exit:
            # paths stop at their first arrival at `end`
            _user_ok = edge_ok
            _end = end

            def edge_ok(a, b, lab, _u=_user_ok, _e=_end):
                return a is not _e and (_u is None or _u(a, b, lab))
        fwd = self.reachable(start, edge_ok=edge_ok)
        bwd = self.reachable(end, forward=False, edge_ok=edge_ok)
        live = fwd & bwd
        if start not in live or end not in live:
            return None
        w = {n: weight(n) for n in live}
        succ = {n: [m for m, lab in self.succ[n] if m in live and (edge_ok is None or edge_ok(n, m, lab))] for n in live}
        # --- min: Dijkstra-like relaxation (weights >= 0)
        dist = {n: INF for n in live}
        dist[start] = w[start]
        changed = True
        while changed:
            changed = False
            for n in live:
                if dist[n] == INF:
                    continue
                for m in succ[n]:
                    d = dist[n] + w[m]
                    if d < dist[m]:
                        dist[m] = d
                        changed = True
        mn = dist[end]
        # --- max: SCC condensation
        index = {}
        low = {}
        onstack = set()
        stack = []
        sccs = []
        counter = [0]

        def strong(v):
            # iterative Tarjan
            work = [(v, iter(succ[v]))]
            index[v] = low[v] = counter[0]
            counter[0] += 1
            stack.append(v)
            onstack.add(v)
            while work:
                node, it = work[-1]
                advanced = False
                for m in it:
                    if m not in index:
                        index[m] = low[m] = counter[0]
                        counter[0] += 1
                        stack.append(m)
                        onstack.add(m)
                        work.append((m, iter(succ[m])))
                        advanced = True
                        break
                    elif m in onstack:
                        low[node] = min(low[node], index[m])
                if advanced:
                    continue
                work.pop()
                if work:
                    parent = work[-1][0]
                    low[parent] = min(low[parent], low[node])
                if low[node] == index[node]:
                    comp = []
                    while True:
                        x = stack.pop()
                        onstack.discard(x)
                        comp.append(x)
                        if x is node:
                            break
                    sccs.append(comp)
        for n in live:
            if n not in index:
                strong(n)
        comp_of = {}
        for i, comp in enumerate(sccs):
            for n in comp:
                comp_of[n] = i
        cw = []
        for i, comp in enumerate(sccs):
            cyclic = len(comp) > 1 or any(comp[0] in succ[comp[0]] for _ in [0])
            tot = sum(w[n] for n in comp)
            cw.append(INF if (cyclic and tot > 0) else tot)
        # Tarjan emits SCCs in reverse topological order
        best = {}
        for i, comp in enumerate(sccs):
            out = set()
            for n in comp:
                for m in succ[n]:
                    if comp_of[m] != i:
                        out.add(comp_of[m])
            tail = max((best[j] for j in out if best.get(j) is not None), default=None)
            if comp_of[end] == i:
                tail0 = 0
                tail = tail0 if tail is None else max(tail, tail0)
            best[i] = None if tail is None else cw[i] + tail
        mx = best[comp_of[start]]
        return (mn, mx)

    def on_cycle(self, n):
        return self.exists_path(n, n)

    def loop_body(self, head):
        """natural loop of the header `head`: nodes that reach one of its back edges without
        passing through the header"""
        latches = [p for p, lab in self.pred[head] if (p, head) in self.back_edges or lab == 'continue']
        body = {head}
        todo = list(latches)
        while todo:
            n = todo.pop()
            if n in body:
                continue
            body.add(n)
            todo.extend(p for p, _ in self.pred[n])
        return body

    def loop_heads(self):
        return [n for n in self.nodes if n.label == 'loop']
