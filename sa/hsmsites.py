"""Handler-call sites of the event processor: location and classification by the signal of the event they send.

A *handler call* is a call whose first positional argument is the processor object (the receiver variable) and whose
callee is a value, not a method: a local, a subscript of the path buffer, or the attributes temp.fun / state.fun.
The event argument is classified by reaching definitions: ENTRY, EXIT, INIT, SUPER (SEARCH_FOR_SUPER_SIGNAL), EMPTY,
REFLECTION or USER (the caller's own event parameter).
"""
import ast
import builtins

from .model import AnalysisError, walk_shallow, dotted, norm
from .util import cfg_of, signal_const

SIGMAP = {'ENTRY_SIGNAL': 'ENTRY', 'EXIT_SIGNAL': 'EXIT', 'INIT_SIGNAL': 'INIT', 'SEARCH_FOR_SUPER_SIGNAL': 'SUPER',
          'EMPTY_SIGNAL': 'EMPTY', 'REFLECTION_SIGNAL': 'REFLECTION'}


def is_factory(f):
    """a function of one parameter that returns one of its nested functions (decorator factory)"""
    if len(f.params) != 1 or not f.nested:
        return False
    for n in walk_shallow(f.node):
        if isinstance(n, ast.Return) and isinstance(n.value, ast.Name) and n.value.id in f.nested:
            return True
    return False


def receiver_of(f):
    g = f
    while g is not None:
        if g.parent is not None and is_factory(g.parent):
            return g.params[0] if g.params else None
        if g.cls is not None and not is_factory(g):
            return g.params[0] if g.params else None
        g = g.parent
    return f.params[0] if f.params else None


def is_handler_call(c, recv, known_funcs=()):
    if not (c.args and isinstance(c.args[0], ast.Name) and c.args[0].id == recv):
        return False
    fn = c.func
    if isinstance(fn, ast.Name):
        return fn.id not in known_funcs and not hasattr(builtins, fn.id)
    if isinstance(fn, ast.Subscript):
        return True
    if isinstance(fn, ast.Attribute):
        d = dotted(fn)
        return bool(d) and (d.endswith('.temp.fun') or d.endswith('.state.fun'))
    return False


def handler_call_nodes(g, f, recv=None):
    recv = recv or receiver_of(f)
    known = set()
    h = f
    while h is not None:
        known |= set(h.nested)
        if h.parent is not None:
            known |= set(h.parent.params[:1]) if False else set()
        h = h.parent
    # the parameter of a decorator factory (`fn`) is the wrapped function, not a state handler
    p = f.parent
    while p is not None:
        if len(p.params) == 1 and p.cls is None or (p.cls is not None and len(p.params) == 1):
            known.add(p.params[0])
        p = p.parent
    out = []
    for n in g.nodes:
        if n.kind in ('entry', 'exit', 'xexit', 'def'):
            continue
        if any(is_handler_call(c, recv, known) for c in n.calls()):
            out.append(n)
    return out


def handler_calls(g, f, recv=None):
    recv = recv or receiver_of(f)
    out = []
    for n in handler_call_nodes(g, f, recv):
        for c in n.calls():
            if is_handler_call(c, recv, set(f.nested)):
                out.append((n, c))
    return out


# ------------------------------------------------------------------ reaching definitions

def defs_of_node(n):
    """[(name, value expr or None)] defined by CFG node n"""
    out = []

    def bind(t, v):
        if isinstance(t, ast.Name):
            out.append((t.id, v))
        elif isinstance(t, (ast.Tuple, ast.List)):
            if isinstance(v, (ast.Tuple, ast.List)) and len(v.elts) == len(t.elts):
                for a, b in zip(t.elts, v.elts):
                    bind(a, b)
            else:
                for a in t.elts:
                    bind(a, None)
    if n.kind == 'stmt':
        s = n.ast
        if isinstance(s, ast.Assign):
            for t in s.targets:
                bind(t, s.value)
        elif isinstance(s, ast.AugAssign):
            bind(s.target, None)
        elif isinstance(s, ast.AnnAssign) and s.value is not None:
            bind(s.target, s.value)
    elif n.kind == 'for':
        bind(n.stmt.target, None)
    elif n.kind == 'with':
        for it in n.stmt.items:
            if it.optional_vars is not None:
                bind(it.optional_vars, None)
    elif n.kind == 'def':
        out.append((n.ast.name, None))
    return out


def reaching_defs(g, params=()):
    """node -> {name: set of (def node id | 'param', value expr)} at node *entry*"""
    IN = {n: {} for n in g.nodes}
    start = {p: {('param', None)} for p in params}
    IN[g.entry] = start
    work = [g.entry]
    gen = {n: defs_of_node(n) for n in g.nodes}
    valmap = {}
    while work:
        n = work.pop()
        out = {k: set(v) for k, v in IN[n].items()}
        for name, v in gen[n]:
            key = (n.id, id(v) if v is not None else None)
            valmap[key] = v
            out[name] = {key}
        # several bindings of the same name in one node: last wins (handled by overwrite above in order)
        for m, _lab in g.succ[n]:
            changed = False
            for k, s in out.items():
                cur = IN[m].setdefault(k, set())
                if not s <= cur:
                    cur |= s
                    changed = True
            if changed:
                work.append(m)
    return IN, valmap


def event_signal(expr, node, rd, valmap, user_params, depth=0):
    """set of signal classes the event expression may carry at CFG node `node`"""
    if isinstance(expr, ast.Call) and isinstance(expr.func, ast.Name) and expr.func.id in ('Event', 'HsmEvent'):
        sig = None
        for kw in expr.keywords:
            if kw.arg == 'signal':
                sig = kw.value
        if sig is None and expr.args:
            sig = expr.args[0]
        sc = signal_const(sig) if sig is not None else None
        if sc in SIGMAP:
            return {SIGMAP[sc]}
        return {'OTHER:' + (sc or norm(sig) if sig is not None else '?')}
    if isinstance(expr, ast.Name):
        defs = rd[node].get(expr.id, set())
        out = set()
        if not defs:
            return {'UNKNOWN'}
        for d in defs:
            if d[0] == 'param':
                out.add('USER' if expr.id in user_params else 'UNKNOWN')
            else:
                v = valmap.get(d)
                if v is None or depth > 3:
                    out.add('UNKNOWN')
                else:
                    # the defining node: find it to evaluate nested names there
                    out |= event_signal(v, node, rd, valmap, user_params, depth + 1) if not isinstance(v, ast.Name) else {'UNKNOWN'}
        return out
    if isinstance(expr, ast.Subscript) and isinstance(expr.value, ast.Name):
        # spy_on style: e = args[0]
        return {'USER'}
    return {'UNKNOWN'}


def classify_sites(f, user_params=None):
    """[(cfg node, call, callee text, signal class set)] for every handler call of f"""
    g = cfg_of(f)
    recv = receiver_of(f)
    user_params = set(user_params if user_params is not None else f.params[1:])
    rd, valmap = reaching_defs(g, f.params)
    out = []
    for n, c in handler_calls(g, f, recv):
        if len(c.args) < 2:
            sigs = {'NOEVENT'}
        else:
            sigs = event_signal(c.args[1], n, rd, valmap, user_params)
        out.append((n, c, norm(c.func), sigs))
    return out
