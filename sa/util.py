"""Small AST/CFG helpers shared by the rules."""
import ast

from .model import AnalysisError, walk_shallow, dotted, norm
from .cfg import CFG

_cfg_cache = {}


def cfg_of(func):
    key = id(func.node)
    if key not in _cfg_cache:
        _cfg_cache[key] = (CFG(func.node), func.node)
    return _cfg_cache[key][0]


def shallow_calls(node):
    out = [n for n in walk_shallow(node) if isinstance(n, ast.Call)]
    out.sort(key=lambda c: (c.lineno, c.col_offset))
    return out


def call_dotted(c):
    return dotted(c.func)


def meth_name(c):
    return c.func.attr if isinstance(c.func, ast.Attribute) else None


def recv_dotted(c):
    return dotted(c.func.value) if isinstance(c.func, ast.Attribute) else None


def is_call_to(c, name):
    """call of a bare name"""
    return isinstance(c, ast.Call) and isinstance(c.func, ast.Name) and c.func.id == name


def parents(root):
    """child -> parent map for the AST under root (descends into nested defs too)"""
    out = {}
    for p in ast.walk(root):
        for ch in ast.iter_child_nodes(p):
            out[ch] = p
    return out


def local_defs(fnode):
    """name -> list of value expressions assigned to that local name in the function (flow-insensitive).
    Tuple assignments are matched element-wise when both sides are tuples; other bindings give a
    ('opaque', node) marker."""
    out = {}

    def bind(t, v):
        if isinstance(t, ast.Name):
            out.setdefault(t.id, []).append(v)
        elif isinstance(t, (ast.Tuple, ast.List)):
            if isinstance(v, (ast.Tuple, ast.List)) and len(v.elts) == len(t.elts):
                for a, b in zip(t.elts, v.elts):
                    bind(a, b)
            else:
                for a in t.elts:
                    bind(a, ('opaque', v))
        elif isinstance(t, ast.Starred):
            bind(t.value, ('opaque', v))
    for n in walk_shallow(fnode):
        if isinstance(n, ast.Assign):
            for t in n.targets:
                bind(t, n.value)
        elif isinstance(n, ast.AnnAssign) and n.value is not None:
            bind(n.target, n.value)
        elif isinstance(n, ast.AugAssign):
            bind(n.target, ('aug', n))
        elif isinstance(n, (ast.For, ast.AsyncFor)):
            bind(n.target, ('iter', n.iter))
        elif isinstance(n, (ast.With, ast.AsyncWith)):
            for it in n.items:
                if it.optional_vars is not None:
                    bind(it.optional_vars, ('with', it.context_expr))
        elif isinstance(n, ast.NamedExpr):
            bind(n.target, n.value)
        elif isinstance(n, ast.comprehension):
            bind(n.target, ('iter', n.iter))
    return out


def unique_def(defs, name):
    """the single plain expression assigned to `name`, else None"""
    v = defs.get(name, [])
    if len(v) == 1 and not isinstance(v[0], tuple):
        return v[0]
    # several definitions with the same text (`request = event.payload` in each arm of a ladder) are one definition
    if len(v) > 1 and all(not isinstance(x, tuple) for x in v) and len({norm(x, limit=400) for x in v}) == 1:
        return v[0]
    return None


def resolve_name(expr, defs, depth=4):
    """follow single-definition local names: `x` -> the expression assigned to x"""
    seen = 0
    while isinstance(expr, ast.Name) and seen < depth:
        d = unique_def(defs, expr.id)
        if d is None:
            break
        expr = d
        seen += 1
    return expr


PURE_BUILTINS = {'len', 'isinstance', 'bool', 'int', 'str', 'type', 'id', 'abs', 'min', 'max', 'tuple'}


OBSERVERS = {'full', 'empty', 'qsize', 'is_set', 'is_alive', 'locked'}


def expand_locals(expr, fnode, depth=3, params=(), observers=False, fresh=None):
    """a copy of `expr` in which every local name with exactly one (plain) definition in the function is replaced by the defining
    expression, recursively: `head = self.queue.deque[0]; head.signal != X`  ->  `self.queue.deque[0].signal != X`.
    Flow-insensitive: only names defined once, by a call-free expression, are expanded (the value cannot have changed in between
    unless the attribute itself was written, which is the caller's concern as with any alias)."""
    import copy
    defs = local_defs(fnode)

    class X(ast.NodeTransformer):
        def __init__(self, level):
            self.level = level

        def visit_Name(self, n):
            if isinstance(n.ctx, ast.Load) and n.id not in params and self.level < depth:
                d = unique_def(defs, n.id)
                if d is not None and fresh is not None and any(isinstance(x, ast.Call) for x in ast.walk(d) if isinstance(d, ast.AST)) and not fresh(n.id, d):
                    d = None        # an observation taken too early to stand for the test
                if d is not None and isinstance(d, ast.AST) and not any(isinstance(x, ast.Call) and not (isinstance(x.func, ast.Name) and x.func.id in PURE_BUILTINS)
                                                                        and not (observers and isinstance(x.func, ast.Attribute) and x.func.attr in OBSERVERS and not x.args and not x.keywords)
                                                                        for x in ast.walk(d)) \
                        and not any(isinstance(x, ast.Name) and x.id == n.id for x in ast.walk(d)):
                    return X(self.level + 1).visit(copy.deepcopy(d))
            return n
    return X(0).visit(copy.deepcopy(expr))


def names_in(expr):
    return {n.id for n in ast.walk(expr) if isinstance(n, ast.Name)}


def mentions_name(expr, name):
    return any(isinstance(n, ast.Name) and n.id == name for n in ast.walk(expr))


def attr_chain_mentions(expr, dotted_prefix):
    """does expr contain an attribute chain equal to / starting with dotted_prefix"""
    for n in ast.walk(expr):
        d = dotted(n) if isinstance(n, (ast.Attribute, ast.Name)) else None
        if d and (d == dotted_prefix or d.startswith(dotted_prefix + '.')):
            return True
    return False


def depends_on(expr, targets, defs, depth=5):
    """does expr (through single- or multi-definition locals) mention one of the names in `targets`"""
    seen = set()
    todo = [expr]
    while todo and depth >= 0:
        nxt = []
        for e in todo:
            if isinstance(e, tuple):
                e = e[1]
                if not isinstance(e, ast.AST):
                    continue
            for n in ast.walk(e):
                if isinstance(n, ast.Name):
                    if n.id in targets:
                        return True
                    if n.id not in seen:
                        seen.add(n.id)
                        nxt.extend(defs.get(n.id, []))
        todo = nxt
        depth -= 1
    return False


def guarded_by_edge(cfg, node, test_node, label):
    """every entry -> node path uses the edge (test_node --label--> .)"""
    def ok(a, b, lab):
        return not (a is test_node and lab == label)
    return node not in cfg.reachable(cfg.entry, edge_ok=ok)


def node_of_call(cfg, call):
    for n in cfg.nodes:
        if n.kind in ('entry', 'exit', 'xexit', 'def'):
            continue
        for x in n.walk():
            if x is call:
                return n
    return None


def node_of_ast(cfg, astnode):
    for n in cfg.nodes:
        if n.kind in ('entry', 'exit', 'xexit'):
            continue
        if n.ast is astnode or n.stmt is astnode:
            return n
        if n.kind != 'def':
            for x in n.walk():
                if x is astnode:
                    return n
    return None


def is_none(e):
    return isinstance(e, ast.Constant) and e.value is None


def const_str(e):
    return e.value if isinstance(e, ast.Constant) and isinstance(e.value, str) else None


def status_const(e):
    """return_status.X -> 'X'"""
    if isinstance(e, ast.Attribute) and isinstance(e.value, ast.Name) and e.value.id in ('return_status',):
        return e.attr
    return None


def signal_const(e):
    """signals.X -> 'X'"""
    if isinstance(e, ast.Attribute) and isinstance(e.value, ast.Name) and e.value.id in ('signals',):
        return e.attr
    return None


def compare_parts(test):
    """for a simple binary Compare: (left, op type, right) else None"""
    if isinstance(test, ast.Compare) and len(test.ops) == 1:
        return test.left, type(test.ops[0]), test.comparators[0]
    return None


def strip_not(test):
    """(inner, polarity): peel `not x`, `x is False`, `x is True`, `x is not True`, `x == False`"""
    pol = True
    while True:
        if isinstance(test, ast.UnaryOp) and isinstance(test.op, ast.Not):
            test = test.operand
            pol = not pol
            continue
        cp = compare_parts(test)
        if cp and isinstance(cp[2], ast.Constant) and isinstance(cp[2].value, bool):
            left, op, right = cp
            if op in (ast.Is, ast.Eq):
                test = left
                pol = pol if right.value else not pol
                continue
            if op in (ast.IsNot, ast.NotEq):
                test = left
                pol = (not pol) if right.value else pol
                continue
        return test, pol


# ------------------------------------------------------------------ inlining of simple self-helpers

class _Subst(ast.NodeTransformer):
    def __init__(self, mapping):
        self.mapping = mapping

    def visit_Name(self, n):
        if isinstance(n.ctx, ast.Load) and n.id in self.mapping:
            import copy
            return copy.deepcopy(self.mapping[n.id])
        return n


def inline_self_helpers(func, cls, model, depth=3):
    """A copy of func's FunctionDef in which statement-level calls `self.helper(args)` to methods of the same class that contain no
    `return <value>` are replaced by the helper's body with parameters substituted by the argument expressions (helpers that pass
    bound methods or fields around are thereby made visible to per-method rules).  Returns (new FunctionDef, [inlined helper names])."""
    import copy
    node = copy.deepcopy(func.node)
    selfn = func.params[0] if func.params else None
    inlined = []

    def expand(stmts, level):
        out = []
        for st in stmts:
            call = None
            if isinstance(st, ast.Expr) and isinstance(st.value, ast.Call):
                call = st.value
            if call is not None and isinstance(call.func, ast.Attribute) and dotted(call.func.value) == selfn and level < depth:
                h = model.lookup_method(cls, call.func.attr) if cls is not None else None
                if h is not None and h is not func and not any(isinstance(x, ast.Return) and x.value is not None for x in walk_shallow(h.node)) \
                        and not any(isinstance(x, ast.Return) for x in walk_shallow(h.node)) and not h.decorators:
                    params = h.params[1:]
                    mapping = {}
                    okk = True
                    for i, a in enumerate(call.args):
                        if i < len(params):
                            mapping[params[i]] = a
                    for kw in call.keywords:
                        if kw.arg:
                            mapping[kw.arg] = kw.value
                    # parameters that are rebound inside the helper cannot be substituted
                    rebound = {t.id for x in walk_shallow(h.node) for t in ast.walk(x) if isinstance(t, ast.Name) and isinstance(t.ctx, ast.Store)}
                    if rebound & set(mapping):
                        okk = False
                    if h.params and h.params[0] != selfn:
                        mapping[h.params[0]] = ast.Name(id=selfn, ctx=ast.Load())
                    if okk and set(params) <= set(mapping) | {p for p, d in zip(reversed(params), reversed(h.node.args.defaults))}:
                        body = [copy.deepcopy(s) for s in h.node.body if not (isinstance(s, ast.Expr) and isinstance(s.value, ast.Constant))]
                        body = [_Subst(mapping).visit(s) for s in body]
                        for s in body:
                            ast.fix_missing_locations(s)
                        inlined.append(h.name)
                        out.extend(expand(body, level + 1))
                        continue
            for field in ('body', 'orelse', 'finalbody'):
                if hasattr(st, field) and isinstance(getattr(st, field), list) and not isinstance(st, (ast.FunctionDef, ast.ClassDef)):
                    setattr(st, field, expand(getattr(st, field), level))
            if isinstance(st, ast.Try):
                for hd in st.handlers:
                    hd.body = expand(hd.body, level)
            out.append(st)
        return out
    node.body = expand(node.body, 0)
    ast.fix_missing_locations(node)
    return node, inlined


class FuncView:
    """a Func-like view over a transformed FunctionDef (same identity for reporting)"""

    def __init__(self, func, node):
        self.__dict__.update(func.__dict__)
        self._orig = func
        self.node = node

    @property
    def owner_class(self):
        return self._orig.owner_class

    @property
    def lineno(self):
        return self.node.lineno

    def site(self, node=None):
        return self._orig.site(node if node is not None and hasattr(node, 'lineno') else None)


def namedtuple_fields(model, attr_or_name):
    """field names of the namedtuple bound to `self.<attr>` / a module-level name anywhere in the package, or None"""
    for f in model.all_funcs():
        for n in walk_shallow(f.node):
            if isinstance(n, ast.Assign) and isinstance(n.value, ast.Call) and norm(n.value.func).split('.')[-1] == 'namedtuple' and len(n.value.args) == 2 \
                    and any((dotted(t) or '').split('.')[-1] == attr_or_name for t in n.targets):
                a = n.value.args[1]
                if isinstance(a, (ast.List, ast.Tuple)):
                    return [e.value for e in a.elts if isinstance(e, ast.Constant)]
                if isinstance(a, ast.Constant) and isinstance(a.value, str):
                    return a.value.replace(',', ' ').split()
    def of_binding(name):
        for (m, nm), v in model.module_bindings.items():
            if nm == name and isinstance(v, ast.Call) and norm(v.func).split('.')[-1] == 'namedtuple' and len(v.args) == 2:
                a = v.args[1]
                if isinstance(a, (ast.List, ast.Tuple)):
                    return [e.value for e in a.elts if isinstance(e, ast.Constant)]
                if isinstance(a, ast.Constant) and isinstance(a.value, str):
                    return a.value.replace(',', ' ').split()
        return None
    r = of_binding(attr_or_name)
    if r is not None:
        return r
    # `self.PostedEvent = PostedEvent` / `= _POSTED_EVENT`: the record class built once at module level and bound to the instance
    for f in model.all_funcs():
        for n in walk_shallow(f.node):
            if isinstance(n, ast.Assign) and isinstance(n.value, ast.Name) and any((dotted(t) or '').split('.')[-1] == attr_or_name for t in n.targets):
                r = of_binding(n.value.id)
                if r is not None:
                    return r
    return None


def ctor_fields(call, fields):
    """{field: argument expression} of a namedtuple construction (positional and keyword arguments)"""
    out = {}
    for i, a in enumerate(call.args):
        if i < len(fields):
            out[fields[i]] = a
    for kw in call.keywords:
        if kw.arg:
            out[kw.arg] = kw.value
    return out


def returned_values(g, params=()):
    """[(exit-predecessor node, label, [(value expression, defining node)])]: what each way of leaving the function hands back.  A returned
    local name is replaced by the expressions of its reaching definitions (value None stands for an opaque one) with the node that made the
    definition; a literal return / falling off the end is attributed to the leaving node itself."""
    from .hsmsites import reaching_defs
    rd, valmap = reaching_defs(g, params)
    byid = {n.id: n for n in g.nodes}
    out = []
    for p, lab in g.pred[g.exit]:
        if lab == 'return' and p.kind == 'stmt' and isinstance(p.ast, ast.Return):
            v = p.ast.value
            if v is None:
                vals = [(ast.Constant(value=None), p)]
            elif isinstance(v, ast.Name):
                ds = rd[p].get(v.id, set())
                vals = [((valmap.get(d), byid.get(d[0])) if d[0] != 'param' else (None, g.entry)) for d in ds] or [(None, p)]
                if v.id not in params:
                    # a way to reach this return on which the local was never bound (UnboundLocalError instead of a value)
                    from .hsmsites import defs_of_node
                    dnodes = [n_ for n_ in g.nodes if any(nm_ == v.id for nm_, _v in defs_of_node(n_))]
                    if dnodes and g.exists_path(g.entry, p, avoiding=dnodes):
                        vals.append((ast.Name(id='<unbound>', ctx=ast.Load()), g.entry))
            else:
                vals = [(v, p)]
            out.append((p, lab, vals))
        elif lab not in ('raise', 'exc'):
            out.append((p, lab, [(ast.Constant(value=None), p)]))
    return out


def partial_format(call):
    """the text of `"<literal>".format(a, b, ..)` with its constant positional arguments written in and the other auto-numbered holes kept as `{}`;
    None when `call` is not such a call"""
    if not (isinstance(call, ast.Call) and isinstance(call.func, ast.Attribute) and call.func.attr == 'format'):
        return None
    lit = const_str(call.func.value)
    if lit is None:
        return None
    out = lit
    for a in call.args:
        if '{}' not in out:
            break
        if isinstance(a, ast.Constant) and isinstance(a.value, (str, int)):
            out = out.replace('{}', str(a.value), 1)
        else:
            out = out.replace('{}', '\0', 1)
    return out.replace('\0', '{}')


RE_FUNCS = ('search', 'match', 'fullmatch', 'sub', 'findall', 'split', 'finditer', 'subn')


def regex_uses(model, func):
    """[(how, pattern, call, subject-args)] for every regular-expression use in `func`: `re.<how>(<literal>, ..)` and `<compiled>.<how>(..)` where
    <compiled> is a local, module-level or class-level name bound to `re.compile(<literal>)`.  `how` is 're.search', 're.match', ...;
    subject-args are the call's arguments after the pattern.  Raises AnalysisError when a pattern is not a literal."""
    out = []
    defs = local_defs(func.node)
    for c in shallow_calls(func.node):
        f = c.func
        if not isinstance(f, ast.Attribute) or f.attr not in RE_FUNCS:
            continue
        if dotted(f.value) == 're':
            if not c.args:
                continue
            pat = const_str(c.args[0])
            if pat is None and isinstance(c.args[0], ast.Name):
                pat = _compiled_pattern(model, func, defs, c.args[0].id, raw=True)
            if pat is None:
                raise AnalysisError('%s: regex is not a string literal: %s' % (func.qualname, norm(c)))
            out.append(('re.' + f.attr, pat, c, list(c.args[1:])))
        elif isinstance(f.value, ast.Name) or (isinstance(f.value, ast.Attribute) and isinstance(f.value.value, ast.Name)):
            name = f.value.id if isinstance(f.value, ast.Name) else f.value.attr
            pat = _compiled_pattern(model, func, defs, name)
            if pat is not None:
                out.append(('re.' + f.attr, pat, c, list(c.args)))
    return out


def _compiled_pattern(model, func, defs, name, raw=False):
    cands = []
    d = unique_def(defs, name)
    if d is not None:
        cands.append(d)
    v = model.module_bindings.get((func.module.name, name))
    if v is not None:
        cands.append(v)
    k = func.owner_class
    if k is not None and name in k.consts:
        cands.append(k.consts[name])
    for v in cands:
        if raw and const_str(v) is not None:
            return const_str(v)
        if isinstance(v, ast.Call) and dotted(v.func) == 're.compile' and v.args and const_str(v.args[0]) is not None:
            return const_str(v.args[0])
    return None


def check_param_defaults(run, rule, f, params=None, why=''):
    """a parameter that the function re-binds to a constant is a defaulted parameter: the re-binding may only happen where the caller passed None (`if p is None: p = <default>`).
    Anywhere else it overrides what the caller asked for."""
    from .boolflow import must_atoms
    import ast as _ast
    g = cfg_of(f)
    n = 0
    for node in g.nodes:
        if node.kind != 'stmt' or not isinstance(node.ast, _ast.Assign):
            continue
        for t in node.ast.targets:
            if isinstance(t, _ast.Name) and t.id in f.params[1:] and (params is None or t.id in params) and isinstance(node.ast.value, _ast.Constant):
                n += 1
                atoms = must_atoms(g, node, f.node, params=f.params)
                ok = any(l == t.id and op in ('Is', 'Eq') and r == 'None' for (l, op, r) in atoms)
                run.inst(rule, f, 'parameter %s of %s is defaulted only where the caller passed None' % (t.id, f.name), ok,
                         '' if ok else ('%s re-binds its parameter `%s` to %s on a path where the caller may have passed a value: %s' % (f.qualname, t.id, _ast.unparse(node.ast.value), why or
                                        'what the caller asked for is silently replaced by the default')), node=node.ast, obligation=True)
    return n


def module_level_names(module):
    """every name bound at the top level of a module (imports, defs, classes, assignments, also inside top-level if/try/with/for)"""
    out = set()
    todo = list(module.tree.body)
    while todo:
        st = todo.pop()
        if isinstance(st, (ast.FunctionDef, ast.AsyncFunctionDef, ast.ClassDef)):
            out.add(st.name)
            continue
        if isinstance(st, (ast.Import, ast.ImportFrom)):
            for al in st.names:
                out.add((al.asname or al.name).split('.')[0])
            continue
        for n in ast.walk(st):
            if isinstance(n, ast.Name) and isinstance(n.ctx, ast.Store):
                out.add(n.id)
            elif isinstance(n, (ast.Import, ast.ImportFrom)):
                for al in n.names:
                    out.add((al.asname or al.name).split('.')[0])
            elif isinstance(n, (ast.FunctionDef, ast.ClassDef)):
                out.add(n.name)
    return out


def is_param_or_defaulted(expr, pname, defs, depth=3):
    """expr is the parameter `pname` itself, or the parameter with a None default filled in (`<const> if pname is None else pname`, also through a local bound once to
    such an expression).  Returns True / False."""
    if isinstance(expr, ast.Name):
        if expr.id == pname:
            return True
        ds = defs.get(expr.id, [])
        if depth > 0 and len(ds) == 1 and isinstance(ds[0], ast.AST):
            return is_param_or_defaulted(ds[0], pname, defs, depth - 1)
        # `k = CONST` on one branch, `k = pname` on the other (the conditional expression written as a statement)
        if depth > 0 and len(ds) >= 2 and all(isinstance(d, ast.AST) for d in ds):
            params_ = [d for d in ds if not isinstance(d, ast.Constant)]
            return bool(params_) and all(is_param_or_defaulted(d, pname, defs, depth - 1) for d in params_)
        return False
    if isinstance(expr, ast.IfExp) and isinstance(expr.test, ast.Compare) and len(expr.test.ops) == 1 and isinstance(expr.test.left, ast.Name) and expr.test.left.id == pname \
            and isinstance(expr.test.comparators[0], ast.Constant) and expr.test.comparators[0].value is None:
        if isinstance(expr.test.ops[0], ast.Is):
            return isinstance(expr.body, ast.Constant) and is_param_or_defaulted(expr.orelse, pname, defs, depth)
        if isinstance(expr.test.ops[0], ast.IsNot):
            return isinstance(expr.orelse, ast.Constant) and is_param_or_defaulted(expr.body, pname, defs, depth)
    return False
