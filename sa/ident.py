"""IDENT: identity comparisons are only legitimate on singletons and on state-handler values."""
import ast

from .model import walk_shallow, dotted, norm
from .util import status_const

HANDLER_PATHS = ('temp.fun', 'state.fun')


def handlerish(e, handler_locals):
    d = dotted(e)
    if d and any(d.endswith(p) for p in HANDLER_PATHS):
        return True
    if isinstance(e, ast.Name) and e.id in handler_locals:
        return True
    if isinstance(e, ast.Subscript) and isinstance(e.value, ast.Name) and e.value.id in handler_locals:
        return True
    return False


def handler_locals_of(f):
    """locals of f that hold state-handler values: assigned from temp.fun/state.fun, from a path-buffer element,
    or the path buffer itself (a list literal local whose elements are assigned handler values)"""
    out = set()
    changed = True
    assigns = []
    for n in walk_shallow(f.node):
        if isinstance(n, ast.Assign):
            for t in n.targets:
                if isinstance(t, ast.Tuple) and isinstance(n.value, ast.Tuple) and len(t.elts) == len(n.value.elts):
                    assigns.extend(zip(t.elts, n.value.elts))
                else:
                    assigns.append((t, n.value))
    # parameters named as handlers cannot be inferred; the processor's own conventions are used by the HSM analysis
    while changed:
        changed = False
        for t, v in assigns:
            if handlerish(v, out):
                name = t.id if isinstance(t, ast.Name) else (t.value.id if isinstance(t, ast.Subscript) and isinstance(t.value, ast.Name) else None)
                if name and name not in out:
                    out.add(name)
                    changed = True
    return out


def census(model, funcs=None):
    """[(func, compare node, ok, reason)] for every is / is not comparison"""
    out = []
    for f in (funcs if funcs is not None else model.all_funcs()):
        hl = None
        for n in walk_shallow(f.node):
            if isinstance(n, ast.Compare) and any(isinstance(o, (ast.Is, ast.IsNot)) for o in n.ops):
                operands = [n.left] + list(n.comparators)

                def single(e):
                    return (isinstance(e, ast.Constant) and (e.value is None or e.value is True or e.value is False)) or status_const(e) is not None
                if any(single(o) for o in operands):
                    out.append((f, n, True, 'singleton operand'))
                    continue
                if hl is None:
                    hl = handler_locals_of(f)
                if all(handlerish(o, hl) for o in operands):
                    out.append((f, n, True, 'state-handler identity'))
                    continue
                out.append((f, n, False, 'identity comparison on values that are not singletons'))
    return out
