"""IDENT: identity comparisons are only legitimate on singletons and on state-handler values."""
import ast

from .model import walk_shallow, dotted, norm
from .util import status_const

HANDLER_PATHS = ('temp.fun', 'state.fun')


def handlerish(e, handler_locals):
    d = dotted(e)
    if d and any(d.endswith(p) for p in HANDLER_PATHS):
        return True
    if isinstance(e, ast.Name) and e.id in handler_locals:
        return True
    if isinstance(e, ast.Subscript) and isinstance(e.value, ast.Name) and e.value.id in handler_locals:
        return True
    return False


def handler_locals_of(f):
    """locals of f that hold state-handler values: assigned from temp.fun/state.fun, from a path-buffer element,
    or the path buffer itself (a list literal local whose elements are assigned handler values)"""
    out = set()
    changed = True
    assigns = []
    for n in walk_shallow(f.node):
        if isinstance(n, ast.Assign):
            for t in n.targets:
                if isinstance(t, ast.Tuple) and isinstance(n.value, ast.Tuple) and len(t.elts) == len(n.value.elts):
                    assigns.extend(zip(t.elts, n.value.elts))
                else:
                    assigns.append((t, n.value))
    # parameters named as handlers cannot be inferred; the processor's own conventions are used by the HSM analysis
    while changed:
        changed = False
        for t, v in assigns:
            if handlerish(v, out):
                name = t.id if isinstance(t, ast.Name) else (t.value.id if isinstance(t, ast.Subscript) and isinstance(t.value, ast.Name) else None)
                if name and name not in out:
                    out.add(name)
                    changed = True
    return out


def census(model, funcs=None):
    """[(func, compare node, ok, reason)] for every is / is not comparison"""
    out = []
    for f in (funcs if funcs is not None else model.all_funcs()):
        hl = None
        for n in walk_shallow(f.node):
            if isinstance(n, ast.Compare) and any(isinstance(o, (ast.Is, ast.IsNot)) for o in n.ops):
                operands = [n.left] + list(n.comparators)

                def single(e):
                    return (isinstance(e, ast.Constant) and (e.value is None or e.value is True or e.value is False)) or status_const(e) is not None
                if any(single(o) for o in operands):
                    out.append((f, n, True, 'singleton operand'))
                    continue
                if hl is None:
                    hl = handler_locals_of(f)
                if all(handlerish(o, hl) for o in operands):
                    out.append((f, n, True, 'state-handler identity'))
                    continue
                out.append((f, n, False, 'identity comparison on values that are not singletons'))
    return out


def truth_uses(fnode, name):
    """the places where the local/parameter `name` is tested for truth (if x / while x / x and .. / not x / bool(x) / assert x / comprehension
    conditions / conditional expressions): for a container that is a test of its *content* (len), not of its presence"""
    out = []

    def is_name(e):
        return isinstance(e, ast.Name) and e.id == name

    def boolctx(e):
        if is_name(e):
            out.append(e)
        elif isinstance(e, ast.BoolOp):
            for v in e.values:
                boolctx(v)
        elif isinstance(e, ast.UnaryOp) and isinstance(e.op, ast.Not):
            boolctx(e.operand)
    shadow = set()
    for n in ast.walk(fnode):
        if n is not fnode and isinstance(n, (ast.FunctionDef, ast.Lambda)) and any(a.arg == name for a in n.args.args + n.args.kwonlyargs):
            shadow |= {id(x) for x in ast.walk(n)}
    for n in ast.walk(fnode):
        if id(n) in shadow:
            continue
        if isinstance(n, (ast.If, ast.While, ast.IfExp, ast.Assert)):
            boolctx(n.test)
        elif isinstance(n, ast.comprehension):
            for c in n.ifs:
                boolctx(c)
        elif isinstance(n, ast.BoolOp):
            # `x and y` / `x or y` used as a value still short-circuits on the truth of x
            for v in n.values[:-1]:
                if is_name(v):
                    out.append(v)
        elif isinstance(n, ast.UnaryOp) and isinstance(n.op, ast.Not) and is_name(n.operand):
            out.append(n.operand)
        elif isinstance(n, ast.Call) and isinstance(n.func, ast.Name) and n.func.id == 'bool' and n.args and is_name(n.args[0]):
            out.append(n.args[0])
    seen, res = set(), []
    for e in out:
        if id(e) not in seen:
            seen.add(id(e))
            res.append(e)
    return res


def queue_params(model):
    """[(func, parameter name)] for every package function that receives an event queue (an argument spelled <x>.queue / <x>.locking_deque, a
    parameter named queue, or such a parameter passed on) - callee resolved by method name"""
    by_name = {}
    for f in model.all_funcs():
        by_name.setdefault(f.name, []).append(f)
    found = set()
    for f in model.all_funcs():
        for p in f.params:
            if p in ('queue', 'locking_deque'):
                found.add((f, p))
    changed = True
    while changed:
        changed = False
        for f in model.all_funcs():
            mine = {p for g, p in found if g is f}
            for c in walk_shallow(f.node):
                if not (isinstance(c, ast.Call) and isinstance(c.func, (ast.Attribute, ast.Name))):
                    continue
                cname = c.func.attr if isinstance(c.func, ast.Attribute) else c.func.id
                for callee in by_name.get(cname, ()):
                    if isinstance(c.func, ast.Name) != (callee.cls is None):
                        continue        # a bare name calls a nested/module function, an attribute calls a method
                    off = 1 if (callee.params and callee.params[0] in ('self', 'cls') and isinstance(c.func, ast.Attribute)) else 0
                    if len(c.args) + off > len(callee.params):
                        continue
                    binds = [(callee.params[i + off], a) for i, a in enumerate(c.args) if i + off < len(callee.params)]
                    binds += [(k.arg, k.value) for k in c.keywords if k.arg in callee.params]
                    for pn, a in binds:
                        d = dotted(a)
                        if (d and (d.endswith('.queue') or d.endswith('.locking_deque'))) or (isinstance(a, ast.Name) and a.id in mine):
                            if (callee, pn) not in found:
                                found.add((callee, pn))
                                changed = True
    return sorted(found, key=lambda t: (t[0].qualname, t[1]))


def check_queue_truth(run, model, rule, classes=None, floor=1):
    """a queue handed to the fabric is an object with __len__: testing it for truth asks whether it is empty, not whether one was given"""
    n = 0
    for f, p in queue_params(model):
        if classes is not None and (f.cls is None or f.cls.name not in classes):
            continue
        n += 1
        uses = truth_uses(f.node, p)
        ok = not uses
        run.inst(rule, f, 'parameter %s is never tested for truth' % p, ok,
                 '' if ok else ('the queue parameter `%s` is tested for truth (%s): deque and LockingDeque define __len__, so an *empty* queue counts as "no queue '
                                'given" - the answer then depends on whether events happen to be pending, not on which queue asks' % (p, norm(uses[0]))),
                 node=uses[0] if uses else f.node, obligation=True)
    run.floor('functions that receive an event queue', n, floor)
    return n


MUTABLE_CTORS = {'dict', 'list', 'set', 'deque', 'OrderedDict', 'defaultdict', 'Counter', 'bytearray'}
MUTATORS = {'append', 'appendleft', 'extend', 'extendleft', 'insert', 'add', 'update', 'setdefault', 'pop', 'popleft', 'popitem', 'remove', 'discard', 'clear', 'rotate', 'sort', 'reverse'}


def check_per_instance_state(run, model, rule, class_names, floor=1):
    """a container that methods fill through `self.<name>[...] = ..` / `self.<name>.append(..)` must belong to the instance: bound on `self` (in a method) and not
    declared as a mutable class attribute - a class-level dict/list is one object shared by every instance of the class (and of its subclasses), so what one chart
    registers, every other chart sees"""
    n = 0
    for cn in class_names:
        cls = model.classes.get(cn) if hasattr(model, 'classes') and isinstance(model.classes, dict) else model.cls(cn)
        if cls is None:
            continue
        chain = [cls] + [k for k in model.mro(cls) if k is not cls]
        # class-level mutable bindings along the MRO
        shared = {}
        for k in chain:
            for st in k.node.body:
                if isinstance(st, (ast.Assign, ast.AnnAssign)):
                    v = st.value
                    tg = st.targets if isinstance(st, ast.Assign) else [st.target]
                    mut = isinstance(v, (ast.Dict, ast.List, ast.Set, ast.ListComp, ast.DictComp, ast.SetComp)) or \
                        (isinstance(v, ast.Call) and norm(v.func).split('.')[-1] in MUTABLE_CTORS)
                    if mut:
                        for t in tg:
                            if isinstance(t, ast.Name):
                                shared.setdefault(t.id, (k, st))
        # containers mutated through self
        for k in chain:
            for f in k.methods.values():
                selfn = f.params[0] if f.params else None
                if selfn is None:
                    continue
                mutated = set()
                rebound = set()
                for x in ast.walk(f.node):
                    if isinstance(x, ast.Subscript) and isinstance(x.ctx, (ast.Store, ast.Del)):
                        b = x.value
                        while isinstance(b, ast.Subscript):
                            b = b.value
                        if isinstance(b, ast.Attribute) and isinstance(b.value, ast.Name) and b.value.id == selfn:
                            mutated.add((b.attr, x))
                    elif isinstance(x, ast.Call) and isinstance(x.func, ast.Attribute) and x.func.attr in MUTATORS:
                        b = x.func.value
                        while isinstance(b, ast.Subscript):
                            b = b.value
                        if isinstance(b, ast.Attribute) and isinstance(b.value, ast.Name) and b.value.id == selfn:
                            mutated.add((b.attr, x))
                    elif isinstance(x, ast.Attribute) and isinstance(x.ctx, ast.Store) and isinstance(x.value, ast.Name) and x.value.id == selfn:
                        rebound.add(x.attr)
                for attr, node in sorted(mutated, key=lambda t: (t[0], getattr(t[1], 'lineno', 0))):
                    if attr not in shared:
                        continue
                    n += 1
                    k0, st0 = shared[attr]
                    # an instance binding made by some method of the class (lazily or in __init__) shadows the class attribute
                    inst_bound = any(attr in {y.attr for y in ast.walk(m_.node) if isinstance(y, ast.Attribute) and isinstance(y.ctx, ast.Store) and isinstance(y.value, ast.Name)
                                              and m_.params and y.value.id == m_.params[0]} for kk in chain for m_ in kk.methods.values())
                    run.inst(rule, f, '%s.%s is filled through self but is a class-level %s' % (k0.name, attr, norm(st0.value)), inst_bound,
                             '' if inst_bound else ('%s.%s is declared on the class (%s) and no method ever binds it on the instance, while %s fills it through `self.%s`: every instance of '
                                                    'the class - every chart in the process - reads and writes the same table, so what one chart registers under a name silently '
                                                    'replaces what another chart registered under that name' % (k0.name, attr, norm(st0), f.qualname, attr)), node=node, obligation=True)
    if n == 0:
        run.inst(rule, '+'.join(class_names), 'no container filled through self is a class-level mutable', True, nontrivial=False)
    return n
