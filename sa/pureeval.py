"""A tiny evaluator for *pure* comparison code (methods like __lt__/__eq__) over a finite abstract domain.

Values that are only touched through comparisons are decided by a finite set of orderings: to decide which total
order `__lt__` implements it is enough to evaluate its body on every pair of objects whose fields range over a
three-element ordered set.  Anything outside the supported pure fragment is an unknown idiom (AnalysisError).
"""
import ast
import operator

from .model import AnalysisError, norm


class Obj:
    def __init__(self, **kw):
        self.__dict__.update(kw)


class _Return(Exception):
    def __init__(self, v):
        self.v = v


class _Break(Exception):
    pass


class _Continue(Exception):
    pass


class Closure:
    def __init__(self, node, env):
        self.node = node
        self.env = env

    def __call__(self, *args):
        params = [a.arg for a in self.node.args.args]
        env = dict(self.env)
        env.update(zip(params, args))
        try:
            run_body(self.node.body, env)
        except _Return as r:
            return r.v
        return None


PURE_METHODS = {list: {'index', 'count', 'copy'}, tuple: {'index', 'count'}, dict: {'get', 'keys', 'values', 'items', 'copy'},
                str: {'startswith', 'endswith', 'strip', 'lower', 'upper', 'split', 'format', 'join', 'replace', 'splitlines', 'lstrip', 'rstrip', 'isdigit', 'isspace', 'find', 'rfind',
                      'partition', 'rpartition', 'index', 'count', 'rsplit', 'title', 'zfill', 'isalpha', 'isalnum', 'expandtabs'},
                __import__('re').Match: {'group', 'groups', 'start', 'end', 'span', 'groupdict'},
                __import__('re').Pattern: {'match', 'search', 'fullmatch', 'sub', 'findall', 'split'}}
BUILTINS = {'str': str, 'int': int, 'float': float, 'bool': bool, 'list': list, 'tuple': tuple, 'dict': dict, 'len': len, 'isinstance': isinstance, 'sorted': sorted,
            'reversed': lambda x: list(reversed(x)), 'range': lambda *a: list(range(*a)), 'enumerate': lambda x, start=0: list(enumerate(x, start)), 'min': min, 'max': max, 'any': any, 'all': all,
            'zip': lambda *a: list(zip(*a)), 'set': set, 'frozenset': frozenset, 'sum': sum, 'abs': abs}
MUTATORS = {list: {'append', 'extend', 'insert'}, dict: {'update', 'setdefault', '__setitem__'}, set: {'add', 'update'}}
_MISSING = object()


class Raised(Exception):
    """the evaluated code executed a raise statement (or used a local that no path bound)"""
    def __init__(self, what):
        Exception.__init__(self, what)
        self.what = what


BINOPS = {ast.Add: operator.add, ast.Sub: operator.sub, ast.Mult: operator.mul, ast.FloorDiv: operator.floordiv, ast.Mod: operator.mod, ast.BitAnd: operator.and_,
          ast.BitOr: operator.or_, ast.BitXor: operator.xor, ast.LShift: operator.lshift, ast.RShift: operator.rshift, ast.Div: operator.truediv, ast.Pow: operator.pow}
CMP = {ast.Lt: operator.lt, ast.LtE: operator.le, ast.Gt: operator.gt, ast.GtE: operator.ge, ast.Eq: operator.eq,
       ast.NotEq: operator.ne, ast.Is: operator.is_, ast.IsNot: operator.is_not,
       ast.In: lambda a, b: a in b, ast.NotIn: lambda a, b: a not in b}


def _comprehension(e, env):
    g = e.generators[0]
    tup = isinstance(g.target, ast.Tuple) and all(isinstance(t, ast.Name) for t in g.target.elts)
    if len(e.generators) != 1 or not (isinstance(g.target, ast.Name) or tup):
        raise AnalysisError('pure evaluator: comprehension %s' % norm(e))
    out = []
    inner = dict(env)
    for item in list(ev(g.iter, env)):
        if tup:
            item = tuple(item)
            if len(item) != len(g.target.elts):
                raise Raised('ValueError')
            for t, x in zip(g.target.elts, item):
                inner[t.id] = x
        else:
            inner[g.target.id] = item
        if all(ev(c, inner) for c in g.ifs):
            out.append(ev(e.elt, inner))
    return out


def ev(e, env):
    if isinstance(e, ast.Constant):
        return e.value
    if isinstance(e, ast.Name):
        if e.id not in env and e.id in BUILTINS:
            return BUILTINS[e.id]
        if e.id not in env:
            sl_ = env.get('__strict_locals__')
            if sl_ and (sl_ is True or e.id in sl_):
                raise Raised('UnboundLocalError: %s' % e.id)        # a name the evaluated function binds somewhere, not bound on this path
            mn_ = env.get('__module_names__')
            if mn_ is not None and e.id not in mn_ and not hasattr(__import__('builtins'), e.id):
                raise Raised('NameError: %s' % e.id)                # bound nowhere: not in the function, not in its module, not a builtin
            raise AnalysisError('pure evaluator: unbound name %s' % e.id)
        return env[e.id]
    if isinstance(e, (ast.GeneratorExp, ast.ListComp)):
        return _comprehension(e, env)
    if isinstance(e, ast.Lambda) and not e.args.defaults and not e.args.vararg and not e.args.kwarg:
        fake = ast.FunctionDef(name='<lambda>', args=e.args, body=[ast.Return(value=e.body)], decorator_list=[])
        return Closure(fake, env)
    if isinstance(e, ast.Call) and isinstance(e.func, ast.Name) and e.func.id in ('sorted', 'min', 'max') and e.func.id not in env and len(e.args) == 1 \
            and e.keywords and all(k.arg in ('key', 'reverse') for k in e.keywords):
        kw = {k.arg: ev(k.value, env) for k in e.keywords}
        try:
            return {'sorted': sorted, 'min': min, 'max': max}[e.func.id](list(ev(e.args[0], env)), **kw)
        except (ValueError, TypeError) as ex:
            raise Raised(type(ex).__name__)
    if isinstance(e, ast.Call) and isinstance(e.func, ast.Name) and e.func.id == 'callable' and e.func.id not in env and len(e.args) == 1 and not e.keywords:
        v_ = ev(e.args[0], env)
        return isinstance(v_, Closure) or (isinstance(v_, Obj) and '__name__' in v_.__dict__) or (callable(v_) and not isinstance(v_, Obj))
    if isinstance(e, ast.Call) and isinstance(e.func, ast.Name) and e.func.id in ('getattr', 'hasattr') and e.func.id not in env and not e.keywords and len(e.args) in (2, 3):
        o_, nm_ = ev(e.args[0], env), ev(e.args[1], env)
        has_ = (hasattr(o_, '__dict__') and nm_ in vars(o_)) or (not isinstance(o_, Obj) and not hasattr(o_, '__dict__') and hasattr(o_, nm_)) \
            or (isinstance(o_, tuple) and nm_ in getattr(type(o_), '_fields', ()))
        if e.func.id == 'hasattr':
            return bool(has_)
        if has_:
            return vars(o_)[nm_] if hasattr(o_, '__dict__') and nm_ in vars(o_) else getattr(o_, nm_)
        if len(e.args) == 3:
            return ev(e.args[2], env)
        raise Raised('AttributeError: %s' % nm_)
    if isinstance(e, ast.SetComp):
        return set(_comprehension(e, env))
    if isinstance(e, ast.DictComp):
        fake = ast.ListComp(elt=ast.Tuple(elts=[e.key, e.value], ctx=ast.Load()), generators=e.generators)
        return dict(_comprehension(fake, env))
    if isinstance(e, ast.Dict) and all(k is not None for k in e.keys):
        return {ev(k, env): ev(v, env) for k, v in zip(e.keys, e.values)}
    if isinstance(e, ast.Call) and isinstance(e.func, ast.Name) and e.func.id == 'next' and e.func.id not in env and not e.keywords and len(e.args) in (1, 2):
        seq = list(ev(e.args[0], env))
        if seq:
            return seq[0]
        if len(e.args) == 2:
            return ev(e.args[1], env)
        raise Raised('StopIteration')
    if isinstance(e, ast.Slice):
        return slice(ev(e.lower, env) if e.lower is not None else None, ev(e.upper, env) if e.upper is not None else None, ev(e.step, env) if e.step is not None else None)
    if isinstance(e, ast.Subscript):
        o, k = ev(e.value, env), ev(e.slice, env)
        try:
            return o[k]
        except (KeyError, IndexError, TypeError) as ex:
            raise Raised('%s: %r' % (type(ex).__name__, k))
    if isinstance(e, ast.Call) and isinstance(e.func, ast.Name) and e.func.id == 'enumerate' and e.func.id not in env and len(e.keywords) == 1 and e.keywords[0].arg == 'start' and len(e.args) == 1:
        return list(enumerate(ev(e.args[0], env), ev(e.keywords[0].value, env)))
    if isinstance(e, ast.Call) and isinstance(e.func, ast.Name) and not e.keywords and (isinstance(env.get(e.func.id), Closure) or (e.func.id not in env and e.func.id in BUILTINS and e.func.id not in ('any', 'all', 'len', 'list', 'bool', 'type'))):
        fn_ = env.get(e.func.id) or BUILTINS[e.func.id]
        try:
            return fn_(*[ev(a, env) for a in e.args])
        except (KeyError, IndexError, ValueError, TypeError) as ex:
            raise Raised('%s' % type(ex).__name__)
    if isinstance(e, ast.Call) and isinstance(e.func, ast.Name) and e.func.id in env and callable(env[e.func.id]) and not isinstance(env[e.func.id], Closure) \
            and all(k.arg for k in e.keywords) and not any(isinstance(a, ast.Starred) for a in e.args):
        # a python callable the caller of the evaluator put into the environment (a recording constructor, a stdlib function)
        try:
            return env[e.func.id](*[ev(a, env) for a in e.args], **{k.arg: ev(k.value, env) for k in e.keywords})
        except (KeyError, IndexError, ValueError, TypeError) as ex:
            raise Raised('%s' % type(ex).__name__)
    if isinstance(e, ast.Call) and isinstance(e.func, ast.Attribute) and e.keywords and all(k.arg for k in e.keywords):
        o_ = ev(e.func.value, env)
        mt_ = env.get('__methods__')
        if mt_ and hasattr(o_, '__dict__') and e.func.attr in mt_ and (not isinstance(o_, Obj) or o_.__dict__.get('__world__')) and e.func.attr not in o_.__dict__:
            fn_ = mt_[e.func.attr]
            pn_ = [a.arg for a in fn_.args.args]
            argv = [o_] + [ev(a, env) for a in e.args]
            kw_ = {k.arg: ev(k.value, env) for k in e.keywords}
            dflt_ = {a_.arg: d_.value for a_, d_ in zip(reversed(fn_.args.args), reversed(fn_.args.defaults)) if isinstance(d_, ast.Constant)}
            for nm_ in pn_[len(argv):]:
                if nm_ in kw_:
                    argv.append(kw_.pop(nm_))
                elif nm_ in dflt_:
                    argv.append(dflt_[nm_])
                else:
                    raise Raised('TypeError: missing argument %s' % nm_)
            if kw_:
                raise Raised('TypeError: unexpected keyword %s' % sorted(kw_))
            return call(fn_, argv, globals_=env.get('__globals__') or {k: v for k, v in env.items() if k.startswith('__')},
                        mutable=bool(env.get('__mutable__')), methods=mt_, strict_locals=bool(env.get('__strict_locals__')), module_names=env.get('__module_names__'))
        if isinstance(o_, Obj) and callable(o_.__dict__.get(e.func.attr)):
            try:
                return o_.__dict__[e.func.attr](*[ev(a, env) for a in e.args], **{k.arg: ev(k.value, env) for k in e.keywords})
            except (KeyError, IndexError, ValueError, TypeError) as ex:
                raise Raised('%s' % type(ex).__name__)
    if isinstance(e, ast.Call) and isinstance(e.func, ast.Attribute) and (e.keywords or any(isinstance(a, ast.Starred) for a in e.args)):
        # f(*args, **kwargs) / keyword arguments on a plain value's pure method (str.format(*a, **k), dict.get(k, default=...))
        o_ = ev(e.func.value, env)
        for ty_, meths_ in PURE_METHODS.items():
            if isinstance(o_, ty_) and not isinstance(o_, Obj) and e.func.attr in meths_:
                argv_, kw_ = [], {}
                for a in e.args:
                    if isinstance(a, ast.Starred):
                        argv_.extend(list(ev(a.value, env)))
                    else:
                        argv_.append(ev(a, env))
                for k in e.keywords:
                    if k.arg is None:
                        kw_.update(dict(ev(k.value, env)))
                    else:
                        kw_[k.arg] = ev(k.value, env)
                try:
                    r_ = getattr(o_, e.func.attr)(*argv_, **kw_)
                except (KeyError, IndexError, ValueError, TypeError) as ex:
                    raise Raised('%s' % type(ex).__name__)
                return list(r_) if e.func.attr in ('keys', 'values', 'items') else r_
        raise AnalysisError('pure evaluator: call %s not modelled' % norm(e))
    if isinstance(e, ast.Call) and isinstance(e.func, ast.Attribute) and not e.keywords:
        o_ = ev(e.func.value, env)
        mt_ = env.get('__methods__')
        if mt_ and hasattr(o_, '__dict__') and e.func.attr in mt_ and (not isinstance(o_, Obj) or o_.__dict__.get('__world__')) and e.func.attr not in vars(o_):
            return call(mt_[e.func.attr], [o_] + [ev(a, env) for a in e.args], globals_=env.get('__globals__') or {k: v for k, v in env.items() if k.startswith('__')},
                        mutable=bool(env.get('__mutable__')), methods=mt_, strict_locals=bool(env.get('__strict_locals__')), module_names=env.get('__module_names__'))
        if env.get('__mutable__'):
            for ty_, meths_ in MUTATORS.items():
                if isinstance(o_, ty_) and e.func.attr in meths_:
                    try:
                        return getattr(o_, e.func.attr)(*[ev(a, env) for a in e.args])
                    except (KeyError, IndexError, ValueError, TypeError) as ex:
                        raise Raised('%s' % type(ex).__name__)
        for ty_, meths_ in PURE_METHODS.items():
            if isinstance(o_, ty_) and not isinstance(o_, Obj) and e.func.attr in meths_:
                try:
                    r_ = getattr(o_, e.func.attr)(*[ev(a, env) for a in e.args])
                except (KeyError, IndexError, ValueError, TypeError) as ex:
                    raise Raised('%s' % type(ex).__name__)
                return list(r_) if e.func.attr in ('keys', 'values', 'items') else r_
    if isinstance(e, ast.Call) and isinstance(e.func, ast.Name) and e.func.id in ('any', 'all', 'len', 'list', 'bool', 'id', 'type') and not e.keywords and len(e.args) == 1:
        a = ev(e.args[0], env)
        if e.func.id == 'type':
            return a.__dict__['_type'] if isinstance(a, Obj) and '_type' in a.__dict__ else type(a)
        return {'any': any, 'all': all, 'len': len, 'list': list, 'bool': bool, 'id': id}[e.func.id](a)
    if isinstance(e, ast.Call) and isinstance(e.func, ast.Attribute) and not e.keywords and e.args:
        o = ev(e.func.value, env)
        if isinstance(o, Obj) and callable(o.__dict__.get(e.func.attr)):
            return o.__dict__[e.func.attr](*[ev(a, env) for a in e.args])
        if isinstance(o, dict) and e.func.attr in ('get', 'keys', 'values'):
            return getattr(o, e.func.attr)(*[ev(a, env) for a in e.args])
        raise AnalysisError('pure evaluator: call %s not modelled' % norm(e))
    if isinstance(e, ast.Call) and isinstance(e.func, ast.Attribute) and not e.keywords and not e.args and e.func.attr in ('keys', 'values', 'items'):
        o = ev(e.func.value, env)
        if isinstance(o, dict):
            return getattr(o, e.func.attr)()
    if isinstance(e, ast.Attribute):
        o = ev(e.value, env)
        if hasattr(o, '__dict__') and e.attr in vars(o):
            return vars(o)[e.attr]
        if isinstance(o, tuple) and e.attr in getattr(type(o), '_fields', ()):
            return getattr(o, e.attr)
        if hasattr(o, '__dict__') and not isinstance(o, Obj):
            raise AnalysisError('pure evaluator: attribute %s of the evaluated world is not modelled' % norm(e))
        if o is None or isinstance(o, (int, float, str, bool, tuple, list, dict)):
            raise Raised('AttributeError: %s' % e.attr)        # a plain value really has no such attribute
        raise AnalysisError('pure evaluator: attribute %s not modelled' % norm(e))
    if isinstance(e, ast.Tuple):
        return tuple(ev(x, env) for x in e.elts)
    if isinstance(e, ast.List):
        return [ev(x, env) for x in e.elts]
    if isinstance(e, ast.Compare):
        left = ev(e.left, env)
        for op, r in zip(e.ops, e.comparators):
            right = ev(r, env)
            if type(op) not in CMP:
                raise AnalysisError('pure evaluator: operator %s' % type(op).__name__)
            if not CMP[type(op)](left, right):
                return False
            left = right
        return True
    if isinstance(e, ast.BoolOp):
        if isinstance(e.op, ast.And):
            v = True
            for x in e.values:
                v = ev(x, env)
                if not v:
                    return v
            return v
        v = False
        for x in e.values:
            v = ev(x, env)
            if v:
                return v
        return v
    if isinstance(e, ast.UnaryOp):
        v = ev(e.operand, env)
        if isinstance(e.op, ast.Not):
            return not v
        if isinstance(e.op, ast.USub):
            return -v
        raise AnalysisError('pure evaluator: unary %s' % type(e.op).__name__)
    if isinstance(e, ast.IfExp):
        return ev(e.body, env) if ev(e.test, env) else ev(e.orelse, env)
    if isinstance(e, ast.BinOp) and type(e.op) in BINOPS:
        a, b = ev(e.left, env), ev(e.right, env)
        try:
            return BINOPS[type(e.op)](a, b)
        except (TypeError, ValueError, ZeroDivisionError) as ex:
            raise Raised(type(ex).__name__)
    if isinstance(e, ast.Call) and isinstance(e.func, ast.Attribute) and not e.args and not e.keywords:
        o = ev(e.func.value, env)
        if isinstance(o, Obj) and callable(o.__dict__.get(e.func.attr)):
            return o.__dict__[e.func.attr]()
        raise AnalysisError('pure evaluator: call %s not modelled' % norm(e))
    raise AnalysisError('pure evaluator: unsupported expression %s' % norm(e))


def run_body(stmts, env):
    for s in stmts:
        if isinstance(s, ast.Return):
            raise _Return(ev(s.value, env) if s.value is not None else None)
        elif isinstance(s, ast.If):
            run_body(s.body if ev(s.test, env) else s.orelse, env)
        elif isinstance(s, ast.Assign) and len(s.targets) == 1 and isinstance(s.targets[0], ast.Name):
            env[s.targets[0].id] = ev(s.value, env)
        elif isinstance(s, ast.AugAssign) and isinstance(s.target, ast.Name) and type(s.op) in BINOPS:
            cur = ev(ast.Name(id=s.target.id, ctx=ast.Load()), env)
            v = ev(s.value, env)
            try:
                env[s.target.id] = BINOPS[type(s.op)](cur, v)
            except (TypeError, ValueError, ZeroDivisionError) as ex:
                raise Raised(type(ex).__name__)
        elif isinstance(s, ast.Assign) and len(s.targets) == 1 and isinstance(s.targets[0], ast.Tuple) and all(isinstance(t, ast.Name) for t in s.targets[0].elts):
            v = ev(s.value, env)
            if len(v) != len(s.targets[0].elts):
                raise AnalysisError('pure evaluator: unpacking mismatch')
            for t, x in zip(s.targets[0].elts, v):
                env[t.id] = x
        elif isinstance(s, ast.For) and not s.orelse and (isinstance(s.target, ast.Name) or (isinstance(s.target, ast.Tuple) and all(isinstance(t, ast.Name) for t in s.target.elts))):
            for item in list(ev(s.iter, env)):
                if isinstance(s.target, ast.Name):
                    env[s.target.id] = item
                else:
                    item = tuple(item)
                    if len(item) != len(s.target.elts):
                        raise Raised('ValueError')
                    for t, x in zip(s.target.elts, item):
                        env[t.id] = x
                try:
                    run_body(s.body, env)
                except _Break:
                    break
                except _Continue:
                    continue
        elif isinstance(s, ast.With):
            # context managers handed in by the checker are objects with __enter__ (and optionally __exit__) callables; anything else (a lock) is entered silently
            exits = []
            for it in s.items:
                cm = ev(it.context_expr, env)
                ent = cm.__dict__.get('__enter__') if isinstance(cm, Obj) else None
                val = ent() if callable(ent) else cm
                if it.optional_vars is not None:
                    if not isinstance(it.optional_vars, ast.Name):
                        raise AnalysisError('pure evaluator: with-target %s' % norm(it.optional_vars))
                    env[it.optional_vars.id] = val
                ex = cm.__dict__.get('__exit__') if isinstance(cm, Obj) else None
                if callable(ex):
                    exits.append(ex)
            try:
                run_body(s.body, env)
            finally:
                for ex in reversed(exits):
                    ex()
        elif isinstance(s, ast.Assign) and env.get('__mutable__') and all(isinstance(t, (ast.Subscript, ast.Attribute, ast.Name, ast.Tuple, ast.List)) for t in s.targets):
            v = ev(s.value, env)

            def bind(t, v):
                if isinstance(t, ast.Name):
                    env[t.id] = v
                elif isinstance(t, ast.Subscript):
                    o = ev(t.value, env)
                    try:
                        o[ev(t.slice, env)] = v
                    except (KeyError, IndexError, TypeError) as ex:
                        raise Raised(type(ex).__name__)
                elif isinstance(t, ast.Attribute):
                    o = ev(t.value, env)
                    if not hasattr(o, '__dict__'):
                        raise Raised('AttributeError: %s' % t.attr)
                    setattr(o, t.attr, v)
                elif isinstance(t, (ast.Tuple, ast.List)):
                    vs = list(v)
                    if len(vs) != len(t.elts):
                        raise Raised('ValueError')
                    for t2, v2 in zip(t.elts, vs):
                        bind(t2, v2)
                else:
                    raise AnalysisError('pure evaluator: assignment target %s' % norm(t))
            for t in s.targets:
                bind(t, v)
        elif isinstance(s, ast.Expr) and isinstance(s.value, ast.Call) and env.get('__mutable__'):
            ev(s.value, env)
        elif isinstance(s, ast.Expr) and isinstance(s.value, ast.Yield) and env.get('__yield_returns__'):
            # a generator used as a context manager (contextlib.contextmanager): what it yields first is what `with ... as x` binds
            raise _Return(ev(s.value.value, env) if s.value.value is not None else None)
        elif isinstance(s, ast.Break):
            raise _Break()
        elif isinstance(s, ast.Continue):
            raise _Continue()
        elif isinstance(s, ast.Expr) and isinstance(s.value, ast.Constant):
            continue
        elif isinstance(s, ast.Pass):
            continue
        elif isinstance(s, ast.Assert):
            if not ev(s.test, env):
                raise Raised('AssertionError')
        elif isinstance(s, ast.Raise):
            raise Raised(norm(s.exc) if s.exc is not None else 're-raise')
        elif isinstance(s, ast.FunctionDef) and not s.decorator_list:
            env[s.name] = Closure(s, env)
        elif isinstance(s, ast.Try) and not s.finalbody:
            try:
                run_body(s.body, env)
            except Raised as ex:
                for h in s.handlers:
                    if h.type is None or norm(h.type) in ('Exception', 'BaseException') or norm(h.type) in ex.what:
                        run_body(h.body, env)
                        break
                else:
                    raise
            else:
                run_body(s.orelse, env)
        else:
            raise AnalysisError('pure evaluator: unsupported statement %s' % norm(s))


def call(fnode, args, globals_=None, strict_locals=False, mutable=False, methods=None, module_names=None):
    """mutable=True: the evaluated code may store into the (scratch) world objects it was given - used to let a constructor / registration
    method build the small worlds its readers are then evaluated on; methods: {name: FunctionDef} callable on world objects"""
    params = [a.arg for a in fnode.args.args]
    env = dict(globals_ or {})
    env['__globals__'] = dict(globals_ or {})
    # parameters the caller leaves out take their (constant) defaults
    for a_, d_ in zip(reversed(fnode.args.args), reversed(fnode.args.defaults)):
        if isinstance(d_, ast.Constant):
            env[a_.arg] = d_.value
    for a_, d_ in zip(fnode.args.kwonlyargs, fnode.args.kw_defaults):
        if isinstance(d_, ast.Constant):
            env[a_.arg] = d_.value
    env.update(zip(params, args))
    if fnode.args.vararg is not None:
        env[fnode.args.vararg.arg] = tuple(args[len(params):])
    if fnode.args.kwarg is not None:
        env[fnode.args.kwarg.arg] = {}
    if strict_locals:
        # names the function (or a function nested in it) binds: reading one of them before any binding is python's UnboundLocalError / NameError;
        # any other unknown name is a global the caller of the evaluator did not model (refusal, not a verdict)
        bound = set()
        for n_ in ast.walk(fnode):
            if isinstance(n_, ast.Name) and isinstance(n_.ctx, ast.Store):
                bound.add(n_.id)
            elif isinstance(n_, (ast.FunctionDef, ast.ClassDef)) and n_ is not fnode:
                bound.add(n_.name)
            elif isinstance(n_, ast.arg):
                bound.add(n_.arg)
        env['__strict_locals__'] = bound
    if mutable:
        env['__mutable__'] = True
    if module_names is not None:
        env['__module_names__'] = set(module_names)
    if methods:
        env['__methods__'] = methods
    try:
        run_body(fnode.body, env)
    except _Return as r:
        return r.v
    return None


def module_constants(model, module):
    """{name: value} for the names a module binds once at top level to a literal constant (flags, format strings, limits): the globals an evaluated function of that
    module sees by default"""
    out = {}
    for (mn, name), v in model.module_bindings.items():
        if mn == module.name and isinstance(v, ast.Constant):
            out[name] = v.value
    return out
