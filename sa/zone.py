"""Difference-bound-matrix (zone) abstract domain: conjunctions of constraints x - y <= c over a few integer
variables plus the zero variable '0'.  Closure by Floyd-Warshall (incremental when one constraint is added to a closed
matrix); join = pointwise max; widening drops unstable bounds."""
INF = float('inf')


class Zone:
    def __init__(self, names):
        self.names = list(names)
        self.ix = {n: i for i, n in enumerate(self.names)}
        n = len(self.names)
        self.m = [[0 if i == j else INF for j in range(n)] for i in range(n)]
        self.bot = False
        self.closed = True

    def copy(self):
        z = Zone.__new__(Zone)
        z.names = self.names
        z.ix = self.ix
        z.m = [r[:] for r in self.m]
        z.bot = self.bot
        z.closed = self.closed
        return z

    def close(self):
        if self.bot or self.closed:
            return self
        n = len(self.names)
        m = self.m
        for k in range(n):
            mk = m[k]
            for i in range(n):
                mi = m[i]
                mik = mi[k]
                if mik == INF:
                    continue
                for j in range(n):
                    v = mik + mk[j]
                    if v < mi[j]:
                        mi[j] = v
        for i in range(n):
            if m[i][i] < 0:
                self.bot = True
        self.closed = True
        return self

    def forget(self, x):
        self.close()
        i = self.ix[x]
        for j in range(len(self.names)):
            if j != i:
                self.m[i][j] = INF
                self.m[j][i] = INF
        # removing a row and a column of a closed matrix leaves it closed

    def le(self, x, y, c):          # x - y <= c
        if self.bot:
            return
        self.close()
        a, b = self.ix[x], self.ix[y]
        m = self.m
        if c >= m[a][b]:
            return
        if m[b][a] + c < 0:
            self.bot = True
            return
        # incremental closure: every shortest path may now use the new edge a -> b once
        n = len(self.names)
        col_a = [m[i][a] for i in range(n)]
        row_b = m[b]
        for i in range(n):
            ia = col_a[i]
            if ia == INF:
                continue
            mi = m[i]
            base = ia + c
            for j in range(n):
                v = base + row_b[j]
                if v < mi[j]:
                    mi[j] = v

    def assign(self, x, y, c):      # x := y + c   (y may be '0')
        if self.bot:
            return
        if x == y:
            self.close()
            i = self.ix[x]
            for j in range(len(self.names)):
                if j != i:
                    self.m[i][j] += c
                    self.m[j][i] -= c
        else:
            self.forget(x)
            self.le(x, y, c)
            self.le(y, x, -c)

    def entails(self, x, y, c):
        if self.bot:
            return True
        self.close()
        if self.bot:
            return True
        return self.m[self.ix[x]][self.ix[y]] <= c

    def join(self, o):
        if self.bot:
            return o.copy()
        if o.bot:
            return self.copy()
        a = self.close()
        b = o.close()
        if a.bot:
            return b.copy()
        if b.bot:
            return a.copy()
        z = Zone.__new__(Zone)
        z.names = self.names
        z.ix = self.ix
        z.bot = False
        z.closed = True      # the pointwise maximum of two closed matrices is closed
        z.m = [[x if x >= y else y for x, y in zip(ra, rb)] for ra, rb in zip(a.m, b.m)]
        return z

    def widen(self, o):             # self = old, o = new
        if self.bot:
            return o.copy()
        if o.bot:
            return self.copy()
        a = self.copy().close()
        b = o.copy().close()
        z = Zone.__new__(Zone)
        z.names = self.names
        z.ix = self.ix
        z.bot = False
        z.closed = False
        z.m = [[x if y <= x else INF for x, y in zip(ra, rb)] for ra, rb in zip(a.m, b.m)]
        return z

    def leq(self, o):
        if self.bot:
            return True
        if o.bot:
            return False
        a = self.close()
        if a.bot:
            return True
        b = o.close()
        if b.bot:
            return False
        return all(x <= y for ra, rb in zip(a.m, b.m) for x, y in zip(ra, rb))

    def show(self):
        if self.bot:
            return 'BOT'
        self.close()
        out = []
        for i, a in enumerate(self.names):
            for j, b in enumerate(self.names):
                if i != j and self.m[i][j] != INF:
                    out.append(f'{a}-{b}<={self.m[i][j]}' if b != '0' and a != '0' else (f'{a}<={self.m[i][j]}' if b == '0' else f'{b}>={-self.m[i][j]}'))
        return ', '.join(out)
