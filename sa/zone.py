"""Difference-bound-matrix (zone) abstract domain: conjunctions of constraints x - y <= c over a few integer
variables plus the zero variable '0'.  Closure by Floyd-Warshall; join = pointwise max; widening drops unstable bounds."""
INF = float('inf')


class Zone:
    def __init__(self, names):
        self.names = list(names); self.ix = {n:i for i,n in enumerate(self.names)}
        n = len(self.names)
        self.m = [[0 if i==j else INF for j in range(n)] for i in range(n)]
        self.bot = False
    def copy(self):
        z = Zone(self.names); z.m = [r[:] for r in self.m]; z.bot = self.bot; return z
    def close(self):
        if self.bot: return self
        n = len(self.names); m = self.m
        for k in range(n):
            for i in range(n):
                mik = m[i][k]
                if mik == INF: continue
                for j in range(n):
                    v = mik + m[k][j]
                    if v < m[i][j]: m[i][j] = v
        for i in range(n):
            if m[i][i] < 0: self.bot = True
        return self
    def forget(self, x):
        self.close(); i = self.ix[x]
        for j in range(len(self.names)):
            if j != i: self.m[i][j] = INF; self.m[j][i] = INF
    def le(self, x, y, c):          # x - y <= c
        if self.bot: return
        i, j = self.ix[x], self.ix[y]
        if c < self.m[i][j]: self.m[i][j] = c
        self.close()
    def assign(self, x, y, c):      # x := y + c   (y may be '0')
        if self.bot: return
        if x == y:
            i = self.ix[x]
            for j in range(len(self.names)):
                if j != i:
                    self.m[i][j] += c; self.m[j][i] -= c
        else:
            self.forget(x); self.le(x, y, c); self.le(y, x, -c)
    def entails(self, x, y, c):
        if self.bot: return True
        self.close(); return self.m[self.ix[x]][self.ix[y]] <= c
    def join(self, o):
        if self.bot: return o.copy()
        if o.bot: return self.copy()
        a = self.copy().close(); b = o.copy().close(); z = Zone(self.names)
        z.m = [[max(a.m[i][j], b.m[i][j]) for j in range(len(self.names))] for i in range(len(self.names))]
        return z
    def widen(self, o):             # self = old, o = new
        if self.bot: return o.copy()
        if o.bot: return self.copy()
        a = self.copy().close(); b = o.copy().close(); z = Zone(self.names)
        z.m = [[a.m[i][j] if b.m[i][j] <= a.m[i][j] else INF for j in range(len(self.names))] for i in range(len(self.names))]
        return z
    def leq(self, o):
        if self.bot: return True
        if o.bot: return False
        a = self.copy().close(); b = o.copy().close()
        return all(a.m[i][j] <= b.m[i][j] for i in range(len(self.names)) for j in range(len(self.names)))
    def show(self):
        if self.bot: return 'BOT'
        self.close(); out=[]
        for i,a in enumerate(self.names):
            for j,b in enumerate(self.names):
                if i!=j and self.m[i][j] != INF:
                    out.append(f'{a}-{b}<={self.m[i][j]}' if b!='0' and a!='0' else (f'{a}<={self.m[i][j]}' if b=='0' else f'{b}>={-self.m[i][j]}'))
        return ', '.join(out)
