"""Thread roots of the package (from its Thread(...) spawn sites) and what each root can reach."""
from .model import AnalysisError


def spawn_roots(model, cg):
    """[(spawning Func, target Func, call node)]"""
    out = []
    for f, targets, c in cg.spawns:
        if not targets:
            raise AnalysisError('Thread(...) in %s: target not resolved' % f.qualname)
        for t in targets:
            out.append((f, t, c))
    return out


def reach_of(cg, root):
    return cg.reach([root])
