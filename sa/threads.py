"""Thread roots of the package (from its Thread(...) spawn sites) and what each root can reach."""
from .model import AnalysisError


def spawn_roots(model, cg):
    """[(spawning Func, target Func, call node)]"""
    out = []
    for f, targets, c in cg.spawns:
        if not targets:
            raise AnalysisError('Thread(...) in %s: target not resolved' % f.qualname)
        for t in targets:
            out.append((f, t, c))
    return out


def reach_of(cg, root):
    return cg.reach([root])


# ------------------------------------------------------------------ reachability with constant-parameter pruning (k=1)

import ast as _ast
from .util import cfg_of as _cfg_of, guarded_by_edge as _guarded, compare_parts as _cmp, strip_not as _strip


def _const_bindings(call, callee):
    """{param: python constant} for parameters of `callee` that the call binds to a literal (explicitly or by default)"""
    out = {}
    a = callee.node.args
    params = [x.arg for x in a.posonlyargs + a.args]
    defaults = dict(zip(reversed(params), reversed(a.defaults)))
    offset = 1 if (callee.cls is not None and params) else 0
    given = {}
    if call is not None:
        for i, v in enumerate(call.args):
            if isinstance(v, _ast.Starred):
                return {}
            if i + offset < len(params):
                given[params[i + offset]] = v
        for kw in call.keywords:
            if kw.arg is None:
                return {}
            given[kw.arg] = kw.value
    for p in params[offset:]:
        v = given.get(p, defaults.get(p))
        if isinstance(v, _ast.Constant):
            out[p] = v.value
    return out


def _eval_test(test, consts):
    """True/False when the test is decided by constant parameters, else None"""
    inner, pol = _strip(test)
    if isinstance(inner, _ast.Name) and inner.id in consts:
        return bool(consts[inner.id]) == pol
    cp = _cmp(inner)
    if cp and isinstance(cp[0], _ast.Name) and cp[0].id in consts and isinstance(cp[2], _ast.Constant):
        v, c = consts[cp[0].id], cp[2].value
        if cp[1] in (_ast.Is, _ast.Eq):
            r = (v is c) if cp[1] is _ast.Is and c is None else (v == c)
        elif cp[1] in (_ast.IsNot, _ast.NotEq):
            r = (v is not c) if cp[1] is _ast.IsNot and c is None else (v != c)
        else:
            return None
        return r == pol
    return None


def reach_pruned(cg, root):
    """functions reachable from `root`; an out-edge of a callee is dropped when it lies on a branch that the constant arguments of
    the call that brought us there make infeasible.  Returns {Func: set of frozenset(const bindings)}"""
    seen = {}
    todo = [(root, frozenset())]
    while todo:
        f, ctx = todo.pop()
        if isinstance(f, str):
            continue
        if ctx in seen.setdefault(f, set()):
            continue
        seen[f].add(ctx)
        consts = dict(ctx)
        g = _cfg_of(f) if consts else None
        # a parameter that is reassigned in the function is not a constant
        if consts:
            stores = {t.id for n in _ast.walk(f.node) for t in [n] if isinstance(n, _ast.Name) and isinstance(n.ctx, _ast.Store)}
            consts = {k: v for k, v in consts.items() if k not in stores}
        for t, c, how in cg.edges.get(f, []):
            if isinstance(t, str):
                continue
            # name-based resolution of an untyped receiver is kept only for the queue-add methods (q.append in the delivery threads);
            # for generic names (clear, get, start, ...) it would connect an Event.clear() to every clear() of the package
            if how == 'by-name' and not (isinstance(c.func, _ast.Attribute) and c.func.attr in ('append', 'appendleft')):
                continue
            if how == 'by-name' and t.owner_class is not None and t.owner_class.name in ('SignalSource', 'OrderedDictWithParams'):
                continue
            feasible = True
            if consts:
                node = None
                for n in g.nodes:
                    if n.kind in ('entry', 'exit', 'xexit', 'def'):
                        continue
                    if any(x is c for x in n.walk()):
                        node = n
                        break
                if node is not None:
                    for tn in g.nodes:
                        if tn.kind != 'test':
                            continue
                        ev = _eval_test(tn.ast, consts)
                        if ev is None:
                            continue
                        dead = 'false' if ev else 'true'
                        if _guarded(g, node, tn, dead):
                            feasible = False
                            break
            if feasible:
                todo.append((t, frozenset(_const_bindings(c, t).items())))
    return seen


def root_writes(model, cg, fx, root):
    """[(function, root-variable-relative path, mutator, node)] for every direct write made by a function reachable from the thread root"""
    out = []
    for f in reach_pruned(cg, root):
        rv = cg.receiver_var(f)
        for r, path, node, how in fx.own_writes(f):
            if rv and r == rv:
                out.append((f, path, how, node))
    return out
