"""F-C06b: two threads subscribing different queues to a signal nobody has subscribed to yet.
Forced interleaving: thread A is parked between `signal_name in registry` (False) and its store; thread B subscribes
meanwhile; A's store then replaces B's list.  Run from a neutral directory with PYTHONPATH=<tree>."""
import threading, sys
from collections import deque
from miros.activeobject import ActiveFabricSource
from miros.event import Event, signals

fab = ActiveFabricSource()
gate_reached, gate_release = threading.Event(), threading.Event()

class Gated(dict):
    def __contains__(self, k):
        r = dict.__contains__(self, k)
        if threading.current_thread().name == 'A' and k == 'RACE_SIG' and not gate_reached.is_set():
            gate_reached.set(); gate_release.wait(5)
        return r
fab.fifo_subscriptions = Gated()
qa, qb = deque(maxlen=5), deque(maxlen=5)
qa.append('a')   # make them unequal by content so identity is not the issue
ev = Event(signal='RACE_SIG')
ta = threading.Thread(target=lambda: fab.subscribe(qa, ev), name='A'); ta.start()
got = gate_reached.wait(2)
fab.subscribe(qb, ev)          # thread B = main
gate_release.set(); ta.join()
reg = fab.fifo_subscriptions['RACE_SIG']
ok = any(q is qa for q in reg) and any(q is qb for q in reg)
print('gate reached:', got, 'registered:', ['qa' if q is qa else 'qb' for q in reg], 'OK' if ok else 'LOST SUBSCRIPTION')
sys.exit(0 if ok else 1)
