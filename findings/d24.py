"""F-C24a/b/c demonstrations: malformed charts must raise HsmTopologyException (C24).  Run from a neutral directory with PYTHONPATH=<tree>."""
import signal as ossig, sys
from miros.hsm import HsmEventProcessor, HsmTopologyException
from miros.event import signals, return_status, Event
S = {}
def mk(name, parent, init=None, trans=None, none_else=False, unhandled=None):
    def st(chart, e):
        if e.signal == signals.ENTRY_SIGNAL: return return_status.HANDLED
        if e.signal == signals.EXIT_SIGNAL: return return_status.HANDLED
        if e.signal == signals.INIT_SIGNAL:
            if init: return chart.trans(S[init])
            return return_status.HANDLED
        if trans and e.signal == getattr(signals, trans[0]): return chart.trans(S[trans[1]])
        if unhandled and e.signal == getattr(signals, unhandled): return return_status.UNHANDLED
        if none_else: return None
        chart.temp.fun = S[parent] if parent else chart.top
        return return_status.SUPER
    st.__name__ = name; return st
def guarded(label, fn, secs=3):
    def bail(*_): raise TimeoutError
    ossig.signal(ossig.SIGALRM, bail); ossig.alarm(secs)
    try: fn(); r = 'returned'
    except HsmTopologyException: r = 'HsmTopologyException'
    except TimeoutError: r = 'HANG'
    except Exception as ex: r = type(ex).__name__
    finally: ossig.alarm(0)
    print('%-58s -> %s' % (label, r)); return r
res = []
S['a'] = mk('a', None, trans=('GO', 'b')); S['b'] = mk('b', None, init='a')
c = HsmEventProcessor(); c.start_at(S['a'])
res.append(guarded('C24a dispatch into a state whose init target is outside it', lambda: c.dispatch(Event(signal=signals.GO))))
S['self'] = mk('self', None, init='self')
res.append(guarded('C24c start_at a state whose init target is itself', lambda: HsmEventProcessor().start_at(S['self'])))
S['n1'] = mk('n1', None, none_else=True); S['n2'] = mk('n2', 'n1'); S['n3'] = mk('n3', 'n2'); S['src'] = mk('src', None, trans=('GO', 'n3'))
c = HsmEventProcessor(); c.start_at(S['src'])
res.append(guarded('C24b transition into a target whose ancestor returns None (e)', lambda: c.dispatch(Event(signal=signals.GO))))
def g_state(chart, e):
    if e.signal in (signals.ENTRY_SIGNAL, signals.EXIT_SIGNAL, signals.INIT_SIGNAL): return return_status.HANDLED
    if e.signal == signals.PING: return return_status.UNHANDLED      # a failed guard
    if e.signal == signals.EMPTY_SIGNAL: return None                  # malformed: no status on the fallback query
    chart.temp.fun = chart.top
    return return_status.SUPER
S['g'] = g_state
c = HsmEventProcessor(); c.start_at(S['g'])
res.append(guarded('C24b guard fallback (EMPTY re-ask) answered with None', lambda: c.dispatch(Event(signal=signals.PING))))
# (g): source nested two deep under an ancestor that returns None on EXIT?  exit handlers returning None in the (g) walk
def mk_exit_none(name, parent):
    def st(chart, e):
        if e.signal == signals.ENTRY_SIGNAL: return return_status.HANDLED
        if e.signal == signals.EXIT_SIGNAL: return None
        if e.signal == signals.INIT_SIGNAL: return return_status.HANDLED
        chart.temp.fun = S[parent] if parent else chart.top
        return return_status.SUPER
    st.__name__ = name; return st
S['p'] = mk('p', None); S['q1'] = mk_exit_none('q1', 'p'); S['q2'] = mk('q2', 'q1', trans=('GO', 'r3'))
S['r1'] = mk('r1', 'p'); S['r2'] = mk('r2', 'r1'); S['r3'] = mk('r3', 'r2')
c = HsmEventProcessor(); c.start_at(S['q2'])
res.append(guarded('C24b (g) walk: an ancestor of the source returns None on EXIT', lambda: c.dispatch(Event(signal=signals.GO))))
sys.exit(0 if all(r == 'HsmTopologyException' for r in res) else 1)
