# (2) forced window: park thread A between `len(self) + 1` and the store, using the key's second hash call
import threading
from miros.event import signals
reached=threading.Event(); release=threading.Event()
class ParkingName(str):
    calls=0
    def __hash__(self):
        ParkingName.calls+=1
        if ParkingName.calls==2:            # 1st: `string in self`; 2nd: `self[string] = len(self)+1` (value already computed)
            reached.set(); release.wait(10)
        return str.__hash__(self)
    __eq__=str.__eq__
ta=threading.Thread(target=lambda: signals.append(ParkingName('NAME_FROM_A'))); ta.start()
print('A parked before the store:', reached.wait(5))
signals.append('NAME_FROM_B')                  # B registers completely meanwhile
release.set(); ta.join()
print('F-C25: NAME_FROM_A =', signals['NAME_FROM_A'], ' NAME_FROM_B =', signals['NAME_FROM_B'])
print('name_for_signal(%d) ='%signals['NAME_FROM_B'], signals.name_for_signal(signals['NAME_FROM_B']))
