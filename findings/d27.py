# F-C27: A does obj.x += 1 and is parked after __get__ decided "not atomic"; B does a plain assignment
import threading, sched, traceback
from miros.thread_safe_attributes import MetaThreadSafeAttributes
class T(metaclass=MetaThreadSafeAttributes): _attributes=['x']
obj=T(); errs=[]
g=sched.Gate('A','__get__', lambda f,ev: ev=='return')
sched.install([g])
def a():
    try:
        obj.x += 1
    except Exception as ex: errs.append(('A',repr(ex)))
def b():
    try:
        obj.x = 5
    except Exception as ex: errs.append(('B',repr(ex)))
ta=threading.Thread(target=a,name='A'); ta.start(); g.reached.wait(5)
tb=threading.Thread(target=b,name='B'); tb.start(); tb.join(3)
print('B finished:', not tb.is_alive())
g.release.set(); ta.join(3)
print('F-C27 errors:', errs, ' final value', T.__dict__['x']._value)
