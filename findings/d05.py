# F-C05: consumer busy inside a long step; it has taken a token but not yet popped (qsize < len).
# Two posters enter the repair loop together, overshoot, and then spin/block: post_fifo does not return.
import threading, time, sched
from miros import ActiveObject, spy_on, signals, Event, return_status
from miros.activeobject import ActiveFabric
hold=threading.Event()
@spy_on
def s(chart,e):
    if e.signal in (signals.ENTRY_SIGNAL,signals.EXIT_SIGNAL,signals.INIT_SIGNAL): return return_status.HANDLED
    if e.signal==signals.SLOW:
        hold.wait(20); return return_status.HANDLED
    if e.signal==signals.PING: return return_status.HANDLED
    chart.temp.fun=chart.top; return return_status.SUPER
import inspect, miros.activeobject as ao_mod
src=inspect.getsource(ao_mod).splitlines()
# first `self.locking_queue.put("ready")` inside the repair loop of append
loop_lines=[i+1 for i,l in enumerate(src) if l.strip()=='while self.locking_queue.qsize() != len(self.deque):']
put_line=loop_lines[0]+1
gates=[sched.Gate('P1','append', lambda f,ev: ev=='line' and f.f_lineno==put_line), sched.Gate('P2','append', lambda f,ev: ev=='line' and f.f_lineno==put_line)]
sched.install(gates)
ao=ActiveObject('x'); ao.start_at(s); time.sleep(0.1)
ao.post_fifo(Event(signal=signals.SLOW)); time.sleep(0.2)      # consumer: token taken, event popped, now inside the slow step
# make tokens lag items by one, as happens whenever the consumer has taken a token and not yet popped:
ao.queue.deque.append(Event(signal=signals.PING))               # (same state the tests create with ld.deque.append)
done=[]
def poster(n):
    ao.post_fifo(Event(signal=signals.PING)); done.append(n)
p1=threading.Thread(target=poster,args=(1,),name='P1',daemon=True); p2=threading.Thread(target=poster,args=(2,),name='P2',daemon=True)
p1.start(); p2.start()
print('both posters inside the repair loop, each about to put:', gates[0].reached.wait(5), gates[1].reached.wait(5), ' qsize', ao.queue.qsize(), 'len', len(ao.queue))
gates[0].release.set(); gates[1].release.set()
time.sleep(1.0)
print('F-C05: posters returned after 1 s:', sorted(done), ' tokens', ao.queue.qsize(), ' pending', len(ao.queue))
hold.set(); time.sleep(0.5)
print('after the consumer resumed: posters returned:', sorted(done), ' tokens', ao.queue.qsize(), ' pending', len(ao.queue))
