"""F-C28c (fixed): a statement that reads a thread-safe attribute from code without source text - exec(), `python -c`, the interactive prompt -
made ThreadSafeAttribute.__get__ fail with "TypeError: 'NoneType' object is not subscriptable" on `fdata.lines[0]`, *after* the lock had been
acquired and before any release: the calling thread kept the attribute's lock, every other thread blocked on it for good.

run:  PYTHONPATH=/repo /venv/bin/python findings/c28_nosource.py      exit 0 = the lock is free after the statement, 1 = it is still held
"""
import sys
import threading
from miros.thread_safe_attributes import MetaThreadSafeAttributes


class T(metaclass=MetaThreadSafeAttributes):
  _attributes = ['x']


def lock_is_free():
  got = []

  def other():
    lock = T.__dict__['x']._lock
    ok = lock.acquire(timeout=0.5)
    got.append(ok)
    if ok:
      lock.release()
  t = threading.Thread(target=other)
  t.start()
  t.join()
  return got[0]


obj = T()
obj.x = 1
results = []
for text in ("v = obj.x", "obj.x += 1", "if obj.x > 0: pass"):
  try:
    exec(text, {'obj': obj})          # code objects built by exec have no source lines
    outcome = 'completed'
  except Exception as ex:
    outcome = 'raised %s: %s' % (type(ex).__name__, ex)
  free = lock_is_free()
  results.append(free)
  print('%-22s %-70s lock free afterwards: %s' % (text, outcome, free))
  if not free:
    break
sys.exit(0 if all(results) else 1)
