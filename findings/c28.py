import threading
from miros.thread_safe_attributes import MetaThreadSafeAttributes
class T(metaclass=MetaThreadSafeAttributes): _attributes=['x']
def free():
    got=[]
    def other():
        ok=T.__dict__['x']._lock.acquire(timeout=0.3); got.append(ok)
        if ok: T.__dict__['x']._lock.release()
    t=threading.Thread(target=other); t.start(); t.join(); return got[0]
def fresh():
    class U(metaclass=MetaThreadSafeAttributes): _attributes=['x']
    global T; T=U; return U()
p=fresh(); p.x = 1
r1=free()
p=fresh(); p.x += 2
r2=free()
p=fresh()
if p.x <= 30: pass
r3=free()
p=fresh(); p.x <<= 1
r4=free()
p=fresh(); y = 0
y += p.x
r5=free()
p=fresh()
print("augmented assign text in a string: +=", p.x)
r6=free()
print('plain assign', r1, '| own aug-assign', r2, '| comparison <=', r3, '| own <<=', r4, '| aug-assign to other var', r5, '| string literal with aug-assign text', r6)
