"""Force interleavings against the real miros code: park a named thread when it reaches a
given (function, predicate) point, run other work, then release it."""
import sys, threading, dis
class Gate:
    def __init__(self, thread_name, func_name, when):   # when(frame, event) -> bool
        self.thread_name=thread_name; self.func_name=func_name; self.when=when
        self.reached=threading.Event(); self.release=threading.Event(); self.armed=True
def install(gates, opcodes=False):
    def tracer(frame, event, arg):
        if frame.f_code.co_name not in {g.func_name for g in gates}: return None
        if opcodes: frame.f_trace_opcodes=True
        def local(frame, event, arg):
            for g in gates:
                if g.armed and threading.current_thread().name==g.thread_name and frame.f_code.co_name==g.func_name and g.when(frame,event):
                    g.armed=False; g.reached.set(); g.release.wait(10)
            return local
        return local
    threading.settrace(tracer)
def opname(frame):
    code=frame.f_code
    return dis.opname[code.co_code[frame.f_lasti]]
