# F-C11b: timer thread parked after its run-flag re-check, before the post; cancel_event returns; timer posts anyway
import threading, time, sched
from miros import ActiveObject, spy_on, signals, Event, return_status
from miros.activeobject import ActiveFabric
@spy_on
def s(chart,e):
    if e.signal in (signals.ENTRY_SIGNAL,signals.EXIT_SIGNAL,signals.INIT_SIGNAL): return return_status.HANDLED
    if e.signal==signals.TICK:
        chart.ticks.append(time.time()); return return_status.HANDLED
    chart.temp.fun=chart.top; return return_status.SUPER
# park the timer thread on the line `times_activated += 1` (after the is_set() re-check, before post)
import inspect, miros.activeobject as ao_mod
src=inspect.getsource(ao_mod).splitlines()
target_line=[i+1 for i,l in enumerate(src) if l.strip()=='times_activated += 1'][0]
gate=sched.Gate(None,'post_event_thread_runner', lambda f,ev: ev=='line' and f.f_lineno==target_line)
# thread name of the timer is a uuid: match any thread
class AnyName:
    def __eq__(self,o): return True
gate.thread_name=AnyName()
sched.install([gate])
ao=ActiveObject('x'); ao.ticks=[]; ao.start_at(s)
tid=ao.post_fifo(Event(signal=signals.TICK),period=0.05,times=0,deferred=True)
print('timer parked between flag check and post:', gate.reached.wait(5))
ao.cancel_event(tid); t_cancel=time.time(); print('cancel_event returned; tracked sources:', len(ao.posted_events_queue))
time.sleep(0.2); gate.release.set(); time.sleep(0.3)
print('F-C11b: ticks dispatched after cancel returned:', sum(1 for t in ao.ticks if t>t_cancel))
ao.stop(); ActiveFabric().stop()
