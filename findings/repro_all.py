import signal as ossig, sys, time, threading
from collections import deque
from queue import PriorityQueue
from miros.hsm import HsmEventProcessor, HsmTopologyException
from miros.event import signals, return_status, Event
from miros.activeobject import ActiveFabric, LockingDeque, FabricEvent, ActiveObject, Factory
from miros import spy_on
from miros.thread_safe_attributes import MetaThreadSafeAttributes
from miros.singleton import SingletonDecorator
import miros; print(miros.__file__)
def guarded(label, fn, secs=2):
    def bail(*_): raise TimeoutError
    ossig.signal(ossig.SIGALRM,bail); ossig.alarm(secs)
    try: r=fn(); print(label,'-> returned',r)
    except HsmTopologyException: print(label,'-> HsmTopologyException')
    except TimeoutError: print(label,'-> HANG')
    except Exception as ex: print(label,'->',type(ex).__name__, ex)
    finally: ossig.alarm(0)
# C01
log=[]; S={}
def mk(name,parent,init=None,trans=None,none_else=False):
    def st(chart,e):
        if e.signal==signals.ENTRY_SIGNAL: log.append('en:'+name); return return_status.HANDLED
        if e.signal==signals.EXIT_SIGNAL: log.append('ex:'+name); return return_status.HANDLED
        if e.signal==signals.INIT_SIGNAL:
            if init: return chart.trans(S[init])
            return return_status.HANDLED
        if trans and e.signal==getattr(signals,trans[0]): return chart.trans(S[trans[1]])
        if none_else: return None
        chart.temp.fun = S[parent] if parent else chart.top
        return return_status.SUPER
    st.__name__=name; return st
S['s']=mk('s',None,trans=('GO','t5'))
prev=None
for n in ['t1','t2','t3','t4']: S[n]=mk(n,prev); prev=n
S['t5']=mk('t5','t4',init='u5'); prev='t5'
for n in ['u1','u2','u3','u4','u5']: S[n]=mk(n,prev); prev=n
c=HsmEventProcessor(); c.start_at(S['s']); log.clear(); c.dispatch(Event(signal=signals.GO))
print('C01', log, c.state_name)
# C24
S['a']=mk('a',None,trans=('GO','b')); S['b']=mk('b',None,init='a')
c=HsmEventProcessor(); c.start_at(S['a']); guarded('C24a dispatch into bad init', lambda: c.dispatch(Event(signal=signals.GO)))
S['self']=mk('self',None,init='self'); guarded('C24c init-to-self start_at', lambda: HsmEventProcessor().start_at(S['self']))
S['n1']=mk('n1',None,none_else=True); S['n2']=mk('n2','n1'); S['n3']=mk('n3','n2'); S['src']=mk('src',None,trans=('GO','n3'))
c=HsmEventProcessor(); c.start_at(S['src']); guarded('C24b dispatch into None-returning ancestor', lambda: c.dispatch(Event(signal=signals.GO)))
# C06
af=ActiveFabric(); q1=deque(maxlen=5); q2=deque(maxlen=5); ea=Event(signal=signals.A)
af.subscribe(q1,ea); af.subscribe(q2,ea); af.subscribe(q2,ea)
print('C06', [x is q1 for x in af.fifo_subscriptions['A']], 'expect [True, False]')
# C16
ld=LockingDeque(); guarded('C16b clear on empty', ld.clear)
for i in range(500): ld.append(i)
ld.appendleft('new'); print('C16a front', ld.deque[0], len(ld))
# C13
af.start(); af.start(); print('C13a alive after 2 starts', af.is_alive(), sum(t.name.endswith('active fabric') for t in threading.enumerate()))
af.clear(); t=threading.Thread(target=af.stop,daemon=True); t.start(); t.join(3); print('C13b stop returned after clear:', not t.is_alive())
# C08
pq=PriorityQueue()
for i in range(6): pq.put(FabricEvent(i,1000))
print('C08', [pq.get().event for _ in range(6)])
# C07 / C18 / C20
def plain(chart,e):
    if e.signal in (signals.ENTRY_SIGNAL,signals.EXIT_SIGNAL,signals.INIT_SIGNAL): return return_status.HANDLED
    if e.signal==signals.PING: chart.got.append('PING'); return return_status.HANDLED
    chart.temp.fun=chart.top; return return_status.SUPER
@spy_on
def spied(chart,e):
    if e.signal in (signals.ENTRY_SIGNAL,signals.EXIT_SIGNAL,signals.INIT_SIGNAL): return return_status.HANDLED
    if e.signal==signals.PING: chart.got.append('PING'); return return_status.HANDLED
    chart.temp.fun=chart.top; return return_status.SUPER
a=ActiveObject(); a.got=[]; a.subscribe(Event(signal=signals.PING)); guarded('C18 unspied name=None start', lambda: a.start_at(plain))
b=ActiveObject('b'); b.got=[]; b.subscribe(Event(signal=signals.PING)); b.start_at(spied); time.sleep(0.2)
cc=ActiveObject('c'); cc.got=[]; cc.start_at(spied); time.sleep(0.1); cc.subscribe(Event(signal=signals.PING)); time.sleep(0.1)
b.publish(Event(signal=signals.PING)); time.sleep(0.3)
print('C07 a',a.got,'b',b.got,'c',cc.got)
guarded('C20 trace()', lambda: repr(b.trace()))
# C11 / C31
tid=b.post_fifo(Event(signal=signals.TICK),period=5.0,times=0,deferred=True)
b.cancel_event(''.join(list(tid))); print('C11 tracked after cancel by equal id', len(b.posted_events_queue))
for i in range(500): b.post_fifo(Event(signal=signals.TICK),period=50.0,times=1,deferred=True)
import io, contextlib
with contextlib.redirect_stdout(io.StringIO()):
    try: b.post_fifo(Event(signal=signals.REJECTED),period=50.0,times=1,deferred=False); r='no raise'
    except Exception as ex: r=type(ex).__name__
time.sleep(0.3); print('C31', r, 'rejected dispatched?', any('REJECTED' in x for x in b.spy()))
b.cancel_events(Event(signal=''.join(['TI','CK']))); print('C11 tracked after cancel_events by rebuilt name', len(b.posted_events_queue))
for x in (a,b,cc): x.stop()
ActiveFabric().stop()
# C17
f=Factory('f'); f.create(state='x'); guarded('C17 nest(str)', lambda: f.nest('x',parent=None) and None)
# C29 / C28a
class T(metaclass=MetaThreadSafeAttributes): _attributes=['x']
p=T(); q=T(); p.x=5; print('C29 q.x', q.x, 'p.x', p.x)
p.x += 2; print('C29 p.x after +=', p.x, 'q.x', q.x)
if p.x <= 30: pass
got=[]
def other():
    ok=T.__dict__['x']._lock.acquire(timeout=0.5); got.append(ok)
    if ok: T.__dict__['x']._lock.release()
t=threading.Thread(target=other); t.start(); t.join(); print('C28a lock free after <= :', got)
# C30
class Slow:
    def __init__(self): time.sleep(0.01)
hits=0
for trial in range(10):
    Sg=SingletonDecorator(Slow); out=[]; bar=threading.Barrier(4)
    def w(): bar.wait(); out.append(Sg())
    ts=[threading.Thread(target=w) for _ in range(4)]; [t.start() for t in ts]; [t.join() for t in ts]
    hits+= len({id(o) for o in out})>1
print('C30 trials with >1 instance', hits)
