#!/venv/bin/python
"""write /verif/seeded/<id>/meta.json"""
import json, sys, os
sid, prop, needs, caught_by = sys.argv[1:5]
d = '/verif/seeded/' + sid
conf = open(os.path.join(d, '.confirm')).read().split(' ', 2) if os.path.exists(os.path.join(d, '.confirm')) else ['?', '?', '?']
meta = {
    'id': sid, 'breaks_property': prop,
    'origin': 'fresh sub-agent given only the property text and its own scratch worktree of /repo',
    'needs_to_manifest': needs,
    'confirmed': {
        'how': 'tools/confirm_seed.sh: fresh scratch worktree of /repo HEAD under /tmp; demo on the unmodified tree, patch applied, demo again, then the full unedited suite with PYTHONPATH=<worktree>; worktree removed afterwards',
        'demo_exit_unmodified': conf[0], 'demo_exit_modified': conf[1], 'suite_with_change': conf[2].strip(),
    },
    'detected_by': caught_by,
    'how_checked': 'tools/try_seed.sh seeded/%s/patch.diff  (git -C /repo apply; ./check <all>; git -C /repo checkout -- .)' % sid,
}
json.dump(meta, open(os.path.join(d, 'meta.json'), 'w'), indent=1)
print('wrote', d + '/meta.json')
