#!/venv/bin/python
"""(re)build selftest/benign/index.json entries for diffs not yet listed: a refactoring is a benign variant of every property whose check analyses a
function the diff touches (evidence/<id>.json coverage.analysed.functions), plus the property named in the file name."""
import ast, json, os, re, subprocess, sys, glob
HERE = os.path.join(os.path.dirname(os.path.abspath(__file__)), '..')
idx_p = os.path.join(HERE, 'selftest', 'benign', 'index.json')
idx = json.load(open(idx_p))
have = {e['id'] for e in idx}
analysed = {}
for p in sorted(glob.glob(os.path.join(HERE, 'evidence', 'C*.json'))):
    e = json.load(open(p))
    analysed[e['property_id']] = set(e['coverage']['analysed']['functions'])


def funcs_of(path):
    out = []
    t = ast.parse(open(path, encoding='utf-8').read())
    mod = os.path.basename(path)[:-3]

    def rec(stmts, q):
        for st in stmts:
            if isinstance(st, (ast.FunctionDef, ast.ClassDef)):
                qq = q + '.' + st.name
                if isinstance(st, ast.FunctionDef):
                    out.append((qq, st.lineno, st.end_lineno))
                rec(st.body, qq)
            else:
                for f in ('body', 'orelse', 'finalbody'):
                    if isinstance(getattr(st, f, None), list):
                        rec(getattr(st, f), q)
    rec(t.body, mod)
    return out


for d in sorted(glob.glob(os.path.join(HERE, 'selftest', 'benign', '*.diff'))):
    bid = os.path.basename(d)[:-5]
    if bid in have:
        continue
    touched = set()
    cur = None
    for line in open(d):
        m = re.match(r'^--- a/(miros/\S+\.py)', line)
        if m:
            cur = m.group(1)
            fl = funcs_of(os.path.join('/repo', cur)) if os.path.exists(os.path.join('/repo', cur)) else []
            continue
        m = re.match(r'^@@ -(\d+)(?:,(\d+))? ', line)
        if m and cur:
            a = int(m.group(1)); n = int(m.group(2) or 1)
            for q, lo, hi in fl:
                if lo <= a + n and a <= hi:
                    touched.add(q)
            if not any(lo <= a + n and a <= hi for q, lo, hi in fl):
                touched.add(os.path.basename(cur)[:-3] + '.<module>')
    props = set()
    m = re.search(r'_(C\d\d)_', bid)
    if m:
        props.add(m.group(1))
    for pid, fs in analysed.items():
        if any(t == f or f.startswith(t + '.') or t.startswith(f + '.') for t in touched for f in fs):
            props.add(pid)
        if any(t.endswith('.<module>') for t in touched) and any(f.split('.')[0] == t.split('.')[0] for t in touched if t.endswith('.<module>') for f in fs):
            props.add(pid)
    idx.append({'id': bid, 'file': bid + '.diff', 'properties': sorted(props)})
    print(bid, len(props))
json.dump(idx, open(idx_p, 'w'), indent=1)
