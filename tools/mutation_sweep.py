#!/venv/bin/python
"""Mutation sweep (evaluation of the checkers, not a check): generate first-order AST mutants of miros/*.py, run every quick check on a scratch
copy of each, and run the repository's own suite on the mutants no check reports.  What is left - mutants that neither a check nor the suite
notices - is written out for manual triage (equivalent mutant, behaviour outside the 32 properties, or a detection gap).

usage: tools/mutation_sweep.py gen  OUT.jsonl                  enumerate mutants
       tools/mutation_sweep.py checks OUT.jsonl RES.jsonl [jobs]   run the 32 checks on each mutant (scratch copies under mkdtemp, removed)
       tools/mutation_sweep.py suite RES.jsonl SUITE.jsonl [jobs]  run the suite on mutants with no finding
Nothing here touches /repo: every mutant lives in its own temporary directory."""
import ast
import copy
import json
import os
import shutil
import subprocess
import sys
import tempfile
from concurrent.futures import ThreadPoolExecutor

REPO = os.environ.get('MIROS_VERIF_REPO', '/repo')
FILES = ['hsm.py', 'activeobject.py', 'event.py', 'thread_safe_attributes.py', 'singleton.py']
HERE = os.path.dirname(os.path.dirname(os.path.abspath(__file__)))

CMP = {ast.Eq: ast.NotEq, ast.NotEq: ast.Eq, ast.Lt: ast.LtE, ast.LtE: ast.Lt, ast.Gt: ast.GtE, ast.GtE: ast.Gt, ast.Is: ast.IsNot, ast.IsNot: ast.Is,
       ast.In: ast.NotIn, ast.NotIn: ast.In}
SWAP_ATTR = {'append': 'appendleft', 'appendleft': 'append', 'pop': 'popleft', 'popleft': 'pop', 'post_fifo': 'post_lifo', 'post_lifo': 'post_fifo',
             'acquire': 'release', 'set': 'clear', 'clear': 'set'}


def is_docstring(stmt):
    return isinstance(stmt, ast.Expr) and isinstance(stmt.value, ast.Constant) and isinstance(stmt.value.value, str)


def opportunities(tree):
    """[(kind, path)] where path identifies the node by its index in a deterministic walk"""
    out = []
    nodes = list(ast.walk(tree))
    for i, n in enumerate(nodes):
        if isinstance(n, ast.Compare) and len(n.ops) == 1 and type(n.ops[0]) in CMP:
            out.append(('cmp', i))
        if isinstance(n, ast.BoolOp):
            out.append(('boolop', i))
        if isinstance(n, ast.UnaryOp) and isinstance(n.op, ast.Not):
            out.append(('not', i))
        if isinstance(n, ast.Constant) and type(n.value) is int and not isinstance(n.value, bool):
            out.append(('int+1', i))
            if n.value != 0:
                out.append(('int-1', i))
        if isinstance(n, ast.Constant) and isinstance(n.value, bool):
            out.append(('bool', i))
        if isinstance(n, ast.Attribute) and n.attr in SWAP_ATTR and isinstance(n.ctx, ast.Load):
            out.append(('attr', i))
        if isinstance(n, ast.AugAssign) and isinstance(n.op, (ast.Add, ast.Sub)):
            out.append(('augop', i))
        if isinstance(n, ast.If):
            out.append(('if-true', i))
            out.append(('if-false', i))
        if isinstance(n, (ast.FunctionDef, ast.If, ast.While, ast.For, ast.With, ast.Try)):
            for fld in ('body', 'orelse', 'finalbody'):
                body = getattr(n, fld, None)
                if not body:
                    continue
                for k, st in enumerate(body):
                    if is_docstring(st):
                        continue
                    if isinstance(st, (ast.Expr, ast.Assign, ast.AugAssign, ast.Break, ast.Raise, ast.Return)):
                        out.append(('del:%s:%d' % (fld, k), i))
    return out


def apply(tree, kind, idx):
    t = copy.deepcopy(tree)
    n = list(ast.walk(t))[idx]
    if kind == 'cmp':
        n.ops = [CMP[type(n.ops[0])]()]
    elif kind == 'boolop':
        n.op = ast.Or() if isinstance(n.op, ast.And) else ast.And()
    elif kind == 'not':
        # replace `not x` by x in the parent: mutate in place into a double negation-free form
        n.op = ast.UAdd() if False else n.op
        inner = n.operand
        n.__class__ = inner.__class__
        n.__dict__.clear()
        n.__dict__.update(inner.__dict__)
    elif kind == 'int+1':
        n.value = n.value + 1
    elif kind == 'int-1':
        n.value = n.value - 1
    elif kind == 'bool':
        n.value = not n.value
    elif kind == 'attr':
        n.attr = SWAP_ATTR[n.attr]
    elif kind == 'augop':
        n.op = ast.Sub() if isinstance(n.op, ast.Add) else ast.Add()
    elif kind == 'if-true':
        n.test = ast.Constant(value=True)
    elif kind == 'if-false':
        n.test = ast.Constant(value=False)
    elif kind.startswith('del:'):
        _, fld, k = kind.split(':')
        body = getattr(n, fld)
        body[int(k)] = ast.Pass()
    ast.fix_missing_locations(t)
    return t


def describe(tree, kind, idx):
    n = list(ast.walk(tree))[idx]
    if kind.startswith('del:'):
        _, fld, k = kind.split(':')
        n = getattr(n, fld)[int(k)]
    try:
        txt = ast.unparse(n)
    except Exception:
        txt = type(n).__name__
    return getattr(n, 'lineno', 0), txt.split('\n')[0][:100]


def enclosing_functions(tree):
    spans = []
    for n in ast.walk(tree):
        if isinstance(n, (ast.FunctionDef, ast.ClassDef)):
            spans.append((n.lineno, n.end_lineno, n.name))
    return spans


def gen(out):
    n = 0
    with open(out, 'w') as fh:
        for fn in FILES:
            src = open(os.path.join(REPO, 'miros', fn)).read()
            tree = ast.parse(src)
            spans = enclosing_functions(tree)
            main_lines = set()
            for st in tree.body:
                if isinstance(st, ast.If) and 'name__' in ast.unparse(st.test):
                    main_lines |= set(range(st.lineno, st.end_lineno + 1))
            for kind, idx in opportunities(tree):
                line, txt = describe(tree, kind, idx)
                if line in main_lines:
                    continue
                inside = [nm for a, b, nm in spans if a <= line <= b]
                fh.write(json.dumps({'id': n, 'file': fn, 'kind': kind, 'idx': idx, 'line': line, 'text': txt, 'where': '.'.join(inside[-2:])}) + '\n')
                n += 1
    print('mutants:', n)


def materialise(m, with_tests=False):
    d = tempfile.mkdtemp(prefix='mut_')
    shutil.copytree(os.path.join(REPO, 'miros'), os.path.join(d, 'miros'), ignore=shutil.ignore_patterns('__pycache__'))
    if with_tests:
        shutil.copytree(os.path.join(REPO, 'test'), os.path.join(d, 'test'), ignore=shutil.ignore_patterns('__pycache__'))
        for extra in ('conftest.py', 'pytest.ini', 'setup.cfg', 'tox.ini', 'setup.py'):
            if os.path.exists(os.path.join(REPO, extra)):
                shutil.copy(os.path.join(REPO, extra), d)
    p = os.path.join(d, 'miros', m['file'])
    tree = ast.parse(open(p).read())
    t2 = apply(tree, m['kind'], m['idx'])
    open(p, 'w').write(ast.unparse(t2) + '\n')
    return d


def run_checks(m):
    try:
        d = materialise(m)
    except Exception as ex:
        return dict(m, error=repr(ex))
    try:
        try:
            compile(open(os.path.join(d, 'miros', m['file'])).read(), m['file'], 'exec')
        except SyntaxError as ex:
            return dict(m, error='syntax ' + str(ex))
        env = dict(os.environ, MIROS_VERIF_OUT=os.path.join(d, 'out'), MIROS_VERIF_NO_SELFTEST='1')
        fired, errors = [], []
        r = subprocess.run([os.path.join(HERE, 'check'), 'all', '--tier', 'quick', '--repo', d], capture_output=True, text=True, env=env, timeout=600)
        pending = set()
        for ln in r.stdout.splitlines():
            t = ln.strip()
            if t.startswith('FINDING ['):
                pending.add(t.split(']')[0].split('[')[1])
            elif t.startswith('VIOLATION property='):
                fired.append([t.split('property=')[1].split()[0], sorted(pending)])
                pending = set()
            elif t.startswith('ANALYSIS-ERROR'):
                pid = t.split('property=')[1].split()[0] if 'property=' in t else '?'
                errors.append([pid, t[:160]])
                pending = set()
        if r.returncode not in (0, 1, 2):
            errors.append(['?', 'check all rc=%s %s' % (r.returncode, r.stderr.strip()[-200:])])
        return dict(m, fired=fired, errors=errors)
    finally:
        shutil.rmtree(d, ignore_errors=True)


def run_suite(m):
    d = materialise(m, with_tests=True)
    try:
        env = dict(os.environ, PYTHONPATH=d)
        try:
            r = subprocess.run(['/venv/bin/python', '-m', 'pytest', '-q', '-x', '-p', 'no:cacheprovider', '--timeout=120', '--deselect', 'test/crypto_test.py'],
                               cwd=d, capture_output=True, text=True, env=env, timeout=900)
            tail = (r.stdout.strip().splitlines() or [''])[-1]
            failed = [ln.split(' ')[1] for ln in r.stdout.splitlines() if ln.startswith('FAILED')]
            return dict(m, suite_rc=r.returncode, suite_tail=tail[:160], suite_failed=failed[:5])
        except subprocess.TimeoutExpired:
            return dict(m, suite_rc=-1, suite_tail='timeout', suite_failed=['<timeout>'])
    finally:
        shutil.rmtree(d, ignore_errors=True)


def main():
    cmd = sys.argv[1]
    if cmd == 'gen':
        return gen(sys.argv[2])
    src, dst = sys.argv[2], sys.argv[3]
    jobs = int(sys.argv[4]) if len(sys.argv) > 4 else 14
    ms = [json.loads(l) for l in open(src)]
    done = set()
    if os.path.exists(dst):
        done = {json.loads(l)['id'] for l in open(dst)}
    if cmd == 'checks':
        todo = [m for m in ms if m['id'] not in done]
        fn = run_checks
    else:
        todo = [m for m in ms if m['id'] not in done and not m.get('fired') and not m.get('error')]
        fn = run_suite
    print('todo', len(todo), flush=True)
    with open(dst, 'a') as fh, ThreadPoolExecutor(jobs) as ex:
        for k, res in enumerate(ex.map(fn, todo)):
            fh.write(json.dumps(res) + '\n')
            fh.flush()
            if k % 50 == 0:
                print(k, flush=True)


if __name__ == '__main__':
    main()
