#!/bin/bash
# usage: sweep_try.sh <mutants.jsonl> <id> [Cnn...] : materialise the mutant in a scratch dir, run the named checks (default all), print findings
F=$1; ID=$2; shift 2
D=$(MIROS_VERIF_REPO=${MIROS_VERIF_REPO:-/tmp/mutsweep/base} /venv/bin/python - "$F" "$ID" <<'PY'
import json, sys, os
sys.path.insert(0, '/verif/tools')
import mutation_sweep as ms
rows = {json.loads(l)['id']: json.loads(l) for l in open(sys.argv[1])}
print(ms.materialise(rows[int(sys.argv[2])]))
PY
)
for p in ${@:-all}; do MIROS_VERIF_OUT=$D/out MIROS_VERIF_NO_SELFTEST=1 /verif/check $p --tier quick --repo $D 2>&1 | grep -E "FINDING|VIOLATION|ANALYSIS-ERROR|^      |Error|File " | grep -v KNOWN | cut -c1-400; done
rm -rf $D
