#!/bin/bash
# usage: tools/try_seed.sh <patch.diff> [props...]   - apply a seeded change to /repo, run the checks, undo it
set -u
P="$(readlink -f "$1")"; shift
PROPS="$*"
if [ -z "$PROPS" ]; then PROPS=$(cd /verif/props && ls c[0-9][0-9].py | sed 's/.py//' | tr a-z A-Z); fi
cd /repo || exit 3
if [ -n "$(git status --porcelain)" ]; then echo "repo not clean"; exit 3; fi
if ! git apply --check "$P" 2>/dev/null; then
  if git apply --3way "$P" 2>/dev/null; then echo "(applied with 3way)"; else echo "PATCH DOES NOT APPLY"; git checkout -- . ; exit 4; fi
else
  git apply "$P"
fi
cd /verif
for p in $PROPS; do
  out=$(MIROS_VERIF_OUT=/tmp/seedrun_out ./check $p 2>&1); rc=$?
  if [ $rc -ne 0 ]; then echo "== $p rc=$rc"; echo "$out" | grep -E "FINDING|construct:|ANALYSIS-ERROR|^      " | cut -c1-260 | head -12; fi
done
git -C /repo checkout -- . ; git -C /repo reset -q
echo "(repo restored: $(git -C /repo status --porcelain | wc -l) changes)"
