#!/venv/bin/python
"""Re-base the stored diffs (seeds, benign variants) that touch a file changed by a new fix: commit in /repo.
usage: rebase_artefacts.py <old commit> <path in repo>...
For every stored diff that touches one of the paths: apply it to the old commit's version, merge the fix in with `git merge-file` (variant <- old -> new HEAD),
write the diff against the new HEAD back.  Conflicts are listed and left for manual treatment (the merged file with markers is kept under /tmp/rebase/<name>/)."""
import glob, os, subprocess, sys, shutil, tempfile
old = sys.argv[1]
paths = sys.argv[2:]
diffs = sorted(glob.glob('/verif/seeded/*/patch.diff') + glob.glob('/verif/selftest/benign/*.diff') + glob.glob('/verif/selftest/benign/unresolved/*.diff'))
os.makedirs('/tmp/rebase', exist_ok=True)
clean, conflict, untouched = [], [], 0
for d in diffs:
    txt = open(d).read()
    if not any(('a/' + p) in txt or ('b/' + p) in txt for p in paths):
        untouched += 1
        continue
    w = tempfile.mkdtemp(prefix='/tmp/rebase_w_')
    try:
        subprocess.check_call('git -C /repo archive %s miros | tar -x -C %s' % (old, w), shell=True)
        shutil.copytree(os.path.join(w, 'miros'), os.path.join(w, 'base'))
        r = subprocess.run(['patch', '-p1', '-s', '-f', '-d', w, '-i', d], capture_output=True, text=True)
        if r.returncode != 0:
            conflict.append((d, 'does not apply to the old commit: ' + r.stdout[:100]))
            continue
        bad = False
        for p in paths:
            mine = os.path.join(w, p)
            base = os.path.join(w, 'base', os.path.relpath(p, 'miros'))
            new = os.path.join('/repo', p)
            if not os.path.exists(mine):
                continue
            r = subprocess.run(['git', 'merge-file', '-q', mine, base, new])
            if r.returncode != 0:
                bad = True
        name = d.replace('/verif/', '').replace('/', '__')
        if bad:
            keep = os.path.join('/tmp/rebase', name)
            shutil.rmtree(keep, ignore_errors=True)
            shutil.copytree(os.path.join(w, 'miros'), os.path.join(keep, 'miros'))
            conflict.append((d, 'merge conflict, see ' + keep))
            continue
        # new diff against /repo HEAD
        out = subprocess.run('cd %s && diff -ruN -x __pycache__ /repo/miros miros' % w, shell=True, capture_output=True, text=True).stdout
        lines = []
        for ln in out.splitlines(True):
            if ln.startswith('diff -ruN'):
                continue
            if ln.startswith('--- /repo/miros'):
                ln = '--- a/miros' + ln[len('--- /repo/miros'):].split('\t')[0] + '\n'
            elif ln.startswith('+++ miros'):
                ln = '+++ b/miros' + ln[len('+++ miros'):].split('\t')[0] + '\n'
            lines.append(ln)
        open(d, 'w').write(''.join(lines))
        clean.append(d)
    finally:
        shutil.rmtree(w, ignore_errors=True)
print('untouched', untouched, 'rebased', len(clean), 'conflicts', len(conflict))
for d, why in conflict:
    print('CONFLICT', d, why)
