#!/bin/bash
# builds the benign twins of the round-5 seeds into /tmp/twins (each is the seed's rewrite without the slip)
T=/tmp/twins
mkdir -p $T
mk() { rm -rf $T/w; mkdir $T/w; cp -r /repo/miros $T/w/miros; find $T/w -name __pycache__ -prune -exec rm -rf {} +; }
fin() { (cd $T/w && diff -ru /repo/miros miros | sed -e 's#^--- /repo/miros#--- a/miros#' -e 's#^+++ miros#+++ b/miros#' -e '/^diff -ru/d' > $T/$1); }
mk; /venv/bin/python - <<'E'
p='/tmp/twins/w/miros/hsm.py'; s=open(p).read()
old='''  def scribble(self, string):
    if self.instrumented:
      self.rtc.spy.append(string)
'''
new='''  def scribble(self, string, *args, **kwargs):
    if args or kwargs:
      string = string.format(*args, **kwargs)
    if self.instrumented:
      self.rtc.spy.append(string)
'''
assert old in s; open(p,'w').write(s.replace(old,new,1))
E
fin X_C19_scribble.diff
mk; /venv/bin/python - <<'E'
p='/tmp/twins/w/miros/activeobject.py'; s=open(p).read()
old='''  def _print(self, fn, content):
    self._queue.put(
      Instrumention(
        fn=fn,
'''
new='''  def _print(self, content, fn=None):
    if fn is None:
      fn = _print
    self._queue.put(
      Instrumention(
        fn=fn,
'''
assert old in s; s=s.replace(old,new,1)
old2="    self.writer._print(fn=_print, content=content)"
assert old2 in s; s=s.replace(old2,"    self.writer._print(content=content)",1)
open(p,'w').write(s)
E
fin X_C21_default.diff
mk; /venv/bin/python - <<'E'
p='/tmp/twins/w/miros/hsm.py'; s=open(p).read()
old='"impossible chart topology: the init target of {} is not one of its substates".format(t)))'
assert s.count(old)>=1
s=s.replace(old,'"impossible chart topology in chart {}: the init target of {} is not one of its substates".format(getattr(self, "name", "?"), t)))')
open(p,'w').write(s)
E
fin X_C24_name.diff
mk; /venv/bin/python - <<'E'
p='/tmp/twins/w/miros/event.py'; s=open(p).read()
old="    signal_name = list(self.keys())[list(self.values()).index(signal)]\n"
new='''    signal_name = None
    with self._lock:
      for key, value in self.items():
        if value == signal:
          signal_name = key
          break
    if signal_name is None:
      raise ValueError("{} is not a signal number".format(signal))
'''
assert old in s; open(p,'w').write(s.replace(old,new,1))
E
fin X_C25_scan.diff
mk; /venv/bin/python - <<'E'
p='/tmp/twins/w/miros/event.py'; s=open(p).read()
old="    payload     = event_as_dict['payload']"
assert old in s; open(p,'w').write(s.replace(old,"    payload     = event_as_dict.get('payload')",1))
E
fin X_C26_get.diff
mk; /venv/bin/python - <<'E'
p='/tmp/twins/w/miros/thread_safe_attributes.py'; s=open(p).read()
old="    return instance.__dict__.get(self._key, self._initial_value)"
assert old in s; s=s.replace(old,"    return vars(instance).get(self._key, self._initial_value)",1)
old="    instance.__dict__[self._key] = value"
assert old in s; s=s.replace(old,"    vars(instance)[self._key] = value",1)
open(p,'w').write(s)
E
fin X_C29_vars.diff
mk; sed -i 's/if(len(self.posted_events_queue) < self.__class__.QUEUE_SIZE):/if(len(self.posted_events_queue) < type(self).QUEUE_SIZE):/' $T/w/miros/activeobject.py; fin X_C31_type.diff
mk; /venv/bin/python - <<'E'
p='/tmp/twins/w/miros/hsm.py'; s=open(p).read()
old='''    stripped_target = []
    for target_item in targets:
      target_item = target_item.strip()
      if len(target_item) != 0:
        stripped_target_item = item_without_timestamp(target_item)
        stripped_target.append(stripped_target_item)
    yield(stripped_target)
'''
new='''    kept = [target_item.strip() for target_item in targets]
    stripped_target = [item_without_timestamp(target_item) for target_item in kept if len(target_item) != 0]
    yield(stripped_target)
'''
assert old in s; open(p,'w').write(s.replace(old,new,1))
E
fin X_C32_comp.diff
mk; /venv/bin/python - <<'E'
p='/tmp/twins/w/miros/hsm.py'; s=open(p).read()
old='''    # call the original handler
    status = fn(chart, e)

'''
new='''    # call the original handler
    try:
      status = fn(chart, e)
    except Exception:
      raise

'''
assert old in s; open(p,'w').write(s.replace(old,new,1))
E
fin X_C18_reraise.diff
rm -rf $T/w
ls -la $T
