#!/bin/bash
# usage: try_benign.sh <diff> [Cnn ...]   -- applies the diff to a scratch copy of /repo/miros and runs the checks (default: all) against the copy
d=$(readlink -f "$1"); shift
tmp=$(mktemp -d /tmp/benign_try_XXXX)
cp -r /repo/miros "$tmp/miros"; find "$tmp" -name __pycache__ -prune -exec rm -rf {} +
if ! patch -p1 -s -f -d "$tmp" -i "$d" >/dev/null 2>&1; then echo "$(basename $d): PATCH DOES NOT APPLY"; rm -rf "$tmp"; exit 3; fi
props="$@"; [ -z "$props" ] && props=$(seq -f "C%02g" 1 32)
for p in $props; do
  out=$(MIROS_VERIF_OUT=$tmp/out MIROS_VERIF_NO_SELFTEST=1 /verif/check $p --tier quick --repo $tmp 2>&1); rc=$?
  if [ $rc -ne 0 ]; then echo "$(basename $(dirname $d))/$(basename $d) $p rc=$rc"; echo "$out" | grep -E "FINDING|ANALYSIS-ERROR|VIOLATION" | grep -v KNOWN | head -4; fi
done
rm -rf "$tmp"
