#!/venv/bin/python
"""usage: sweep_show.py <mutants.jsonl> <id>... : print the unified diff of each mutant against the (AST-normalised) base"""
import ast, difflib, json, os, sys
sys.path.insert(0, os.path.dirname(os.path.abspath(__file__)))
import mutation_sweep as ms
rows = {json.loads(l)['id']: json.loads(l) for l in open(sys.argv[1])}
for i in sys.argv[2:]:
    m = rows[int(i)]
    p = os.path.join(ms.REPO, 'miros', m['file'])
    base = ast.unparse(ast.parse(open(p).read())).splitlines()
    mut = ast.unparse(ms.apply(ast.parse(open(p).read()), m['kind'], m['idx'])).splitlines()
    print('== %s %s %s %s' % (m['id'], m['file'], m['where'], m['kind']))
    for l in difflib.unified_diff(base, mut, lineterm='', n=2):
        if not l.startswith(('---', '+++')):
            print('   ' + l)
