#!/bin/bash
T=/tmp/twins7
mk() { rm -rf $T/w; mkdir -p $T/w; cp -r /repo/miros $T/w/miros; find $T/w -name __pycache__ -prune -exec rm -rf {} +; }
fin() { (cd $T/w && diff -ru /repo/miros miros | sed -e 's#^--- /repo/miros#--- a/miros#' -e 's#^+++ miros#+++ b/miros#' -e '/^diff -ru/d' > $T/$1); }
mk; /venv/bin/python - <<'E'
p='/tmp/twins7/w/miros/hsm.py'; s=open(p).read()
old='''    if(len(self.queue) != 0):
      event = self.queue.popleft()
      self.dispatch(e=event)
'''
new='''    if(len(self.queue) != 0):
      event = self.queue.popleft()
      self.stepping = True
      try:
        self.dispatch(e=event)
      finally:
        self.stepping = False
'''
assert old in s; s=s.replace(old,new,1)
old2="  def spy_full(self):\n"
new2='''  def is_stepping(self):
    \'\'\'True while a run to completion step of this chart is in progress\'\'\'
    return getattr(self, 'stepping', False)

  def spy_full(self):
'''
assert old2 in s; s=s.replace(old2,new2,1)
open(p,'w').write(s)
E
fin X_C14_guard_finally.diff
mk; /venv/bin/python - <<'E'
p='/tmp/twins7/w/miros/thread_safe_attributes.py'; s=open(p).read()
old="    previous_frame = inspect.currentframe().f_back\n"
assert old in s; s=s.replace(old,"    previous_frame = sys._getframe(1)\n",1)
s=s.replace("import inspect\n","import inspect\nimport sys\n",1)
open(p,'w').write(s)
E
fin X_C28_getframe.diff
mk; /venv/bin/python - <<'E'
p='/tmp/twins7/w/miros/hsm.py'; s=open(p).read()
old='    strace = "[{}] [{}] e->{}() {}->{}\\n".format('
assert old in s; s=s.replace(old,'    strace = "[{}] [{}] e->{}() {}->{}".format(',1)
n=s.count("strace += self.trace_tuple_to_formatted_string(tr)\n")
s=s.replace("strace += self.trace_tuple_to_formatted_string(tr)\n","strace += self.trace_tuple_to_formatted_string(tr) + \"\\n\"\n")
s=s.replace("strace  += self.trace_tuple_to_formatted_string(tr)\n","strace  += self.trace_tuple_to_formatted_string(tr) + \"\\n\"\n")
open(p,'w').write(s)
p='/tmp/twins7/w/miros/activeobject.py'; s=open(p).read()
s=s.replace("strace += self.trace_tuple_to_formatted_string(tr)\n","strace += self.trace_tuple_to_formatted_string(tr) + \"\\n\"\n")
open(p,'w').write(s)
E
fin X_C32_newline_sites.diff
mk; /venv/bin/python - <<'E'
p='/tmp/twins7/w/miros/hsm.py'; s=open(p).read()
old='''    fn(self, e)
    if self.instrumented:
      self.rtc.spy.append("POST_FIFO:{}".format(e.signal_name))
'''
new='''    fn(self, e)
    if self.instrumented:
      with _spy_line_lock:
        self.rtc.spy.append("POST_FIFO:{}".format(e.signal_name))
'''
assert old in s; s=s.replace(old,new,1)
s=s.replace("def append_fifo_to_spy(fn):","from threading import Lock as _Lock\n_spy_line_lock = _Lock()\n\n\ndef append_fifo_to_spy(fn):",1)
open(p,'w').write(s)
E
fin X_C18_lock_line.diff
rm -rf $T/w; ls -la $T
