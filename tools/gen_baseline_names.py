#!/venv/bin/python
"""inventory of the function names of the pinned tree (the reference for sa/normalise.py): run once on the unchanged tree"""
import ast, json, os, subprocess, sys
root = sys.argv[1] if len(sys.argv) > 1 else '/repo'
names = []
for f in sorted(os.listdir(os.path.join(root, 'miros'))):
    if not f.endswith('.py'):
        continue
    t = ast.parse(open(os.path.join(root, 'miros', f), encoding='utf-8').read())
    mod = f[:-3]
    for st in t.body:
        if isinstance(st, ast.FunctionDef):
            names.append('%s.%s' % (mod, st.name))
        elif isinstance(st, ast.ClassDef):
            for s2 in st.body:
                if isinstance(s2, ast.FunctionDef):
                    names.append('%s.%s.%s' % (mod, st.name, s2.name))
commit = subprocess.run(['git', '-C', root, 'rev-parse', 'HEAD'], capture_output=True, text=True).stdout.strip()
json.dump({'commit': commit, 'functions': sorted(set(names))}, open(os.path.join(os.path.dirname(os.path.abspath(__file__)), '..', 'sa', 'baseline_names.json'), 'w'), indent=0)
print(len(set(names)), 'functions at', commit)
