#!/venv/bin/python
"""inventory of the function names of the pinned tree (the reference for sa/normalise.py): run once on the unchanged tree"""
import ast, json, os, subprocess, sys
root = sys.argv[1] if len(sys.argv) > 1 else '/repo'
names = []
nested = []
constants = []
attributes = set()
params = {}


def _params(fn):
    a = fn.args
    return [x.arg for x in a.posonlyargs + a.args + a.kwonlyargs] + ([a.vararg.arg] if a.vararg else []) + ([a.kwarg.arg] if a.kwarg else [])


def walk_nested(fn, q):
    for n in ast.walk(fn):
        if isinstance(n, ast.FunctionDef) and n is not fn:
            pass
    def rec(stmts, q):
        for st in stmts:
            if isinstance(st, ast.FunctionDef):
                nested.append(q + '.' + st.name)
                rec(st.body, q + '.' + st.name)
            else:
                for f in ('body', 'orelse', 'finalbody'):
                    if isinstance(getattr(st, f, None), list):
                        rec(getattr(st, f), q)
                for h in getattr(st, 'handlers', []) or []:
                    rec(h.body, q)
    rec(fn.body, q)
for f in sorted(os.listdir(os.path.join(root, 'miros'))):
    if not f.endswith('.py'):
        continue
    t = ast.parse(open(os.path.join(root, 'miros', f), encoding='utf-8').read())
    mod = f[:-3]
    attributes.update(n.attr for n in ast.walk(t) if isinstance(n, ast.Attribute))
    attributes.update(n.args[1].value for n in ast.walk(t) if isinstance(n, ast.Call) and isinstance(n.func, ast.Name) and n.func.id in ('getattr', 'setattr', 'hasattr') and len(n.args) >= 2 and isinstance(n.args[1], ast.Constant) and isinstance(n.args[1].value, str))
    for st in ast.walk(t):
        if isinstance(st, ast.ClassDef):
            for s2 in st.body:
                if isinstance(s2, (ast.Assign, ast.AnnAssign)):
                    for tg in (s2.targets if isinstance(s2, ast.Assign) else [s2.target]):
                        if isinstance(tg, ast.Name):
                            constants.append('%s.%s.%s' % (mod, st.name, tg.id))
    for st in t.body:
        for s2 in ([st] if isinstance(st, (ast.Assign, ast.AnnAssign)) else [x for x in ast.walk(st) if isinstance(x, (ast.Assign, ast.AnnAssign))] if isinstance(st, (ast.If, ast.Try)) else []):
            for tg in (s2.targets if isinstance(s2, ast.Assign) else [s2.target]):
                if isinstance(tg, ast.Name):
                    constants.append('%s.%s' % (mod, tg.id))
    for st in t.body:
        if isinstance(st, ast.FunctionDef):
            names.append('%s.%s' % (mod, st.name))
            params['%s.%s' % (mod, st.name)] = _params(st)
            walk_nested(st, '%s.%s' % (mod, st.name))
        elif isinstance(st, ast.ClassDef):
            for s2 in st.body:
                if isinstance(s2, ast.FunctionDef):
                    names.append('%s.%s.%s' % (mod, st.name, s2.name))
                    params['%s.%s.%s' % (mod, st.name, s2.name)] = _params(s2)
                    walk_nested(s2, '%s.%s.%s' % (mod, st.name, s2.name))
commit = subprocess.run(['git', '-C', root, 'rev-parse', 'HEAD'], capture_output=True, text=True).stdout.strip()
json.dump({'commit': commit, 'functions': sorted(set(names)), 'nested': sorted(set(nested)), 'constants': sorted(set(constants)), 'attributes': sorted(attributes), 'params': params}, open(os.path.join(os.path.dirname(os.path.abspath(__file__)), '..', 'sa', 'baseline_names.json'), 'w'), indent=0)
print(len(set(names)), 'functions at', commit)
