#!/venv/bin/python
"""Regenerate MANIFEST.json from props/registry.py (claimed checks) - keeps the manifest valid and in step with the code."""
import json
import os
import sys

HERE = os.path.dirname(os.path.dirname(os.path.abspath(__file__)))
sys.path.insert(0, HERE)
from props.registry import CLAIMED, NOT_APPLICABLE, PENDING  # noqa: E402

BASELINE = 'cd /repo && /venv/bin/python -m pytest -ra -q -p no:cacheprovider --timeout=900 --continue-on-collection-errors'


def main():
    checks = []
    for pid in sorted(CLAIMED):
        c = CLAIMED[pid]
        if not os.path.exists(os.path.join(HERE, 'props', pid.lower() + '.py')):
            raise SystemExit('registry claims %s but props/%s.py does not exist' % (pid, pid.lower()))
        checks.append({
            'property_id': pid,
            'quick_cmd': './check %s --tier quick' % pid,
            'thorough_cmd': './check %s --tier thorough' % pid,
            'evidence_file': 'evidence/%s.json' % pid,
            'replay_cmd_template': './check explain {path}',
            'engine': 'miros-sa',
            'level_claimed': {'category': 'other', 'text': c['level'], 'design_ref': c.get('design_ref', 'DESIGN.md section 4 (%s)' % pid)},
            'level_note': c['note'],
            'technique': c['technique'],
        })
    na = []
    for pid in sorted(NOT_APPLICABLE):
        na.append({'property_id': pid, 'reason': NOT_APPLICABLE[pid]})
    for pid in sorted(PENDING):
        if pid not in CLAIMED and pid not in NOT_APPLICABLE:
            na.append({'property_id': pid, 'reason': PENDING[pid]})
    all_ids = {'C%02d' % i for i in range(1, 33)}
    covered = set(CLAIMED) | {x['property_id'] for x in na}
    if covered != all_ids:
        raise SystemExit('registry does not cover every property: missing %s' % sorted(all_ids - covered))
    man = {
        'version': 1,
        'setup_cmd': '/venv/bin/python -c "import ast, sys; assert sys.version_info >= (3, 9)" && chmod +x ./check',
        'hooks': {
            'guard': 'MIROS_VERIF',
            'enable': 'none needed: every check is static analysis of the source in /repo/miros; no hook or instrumentation exists in /repo and nothing reads MIROS_VERIF',
            'baseline_off_cmd': BASELINE,
            'source_commits': [],
            'add_only': True,
        },
        'engines': [{
            'name': 'miros-sa',
            'path': 'sa/',
            'serves_properties': sorted(CLAIMED),
            'kind_free_text': 'repository-specific static analyser (python ast): CFG with dominators and path counting, resolved call graph with '
                              'decorator chains and thread spawn edges, attribute-path effect sets, locksets, a difference-bound-matrix abstract '
                              'interpreter for the event processor\'s path buffer, finite-domain evaluation of pure comparison code and of regex/'
                              'format literals; nothing from miros is imported or executed',
        }],
        'checks': checks,
        'not_applicable': na,
        'notes': 'All checks: `./check <Cnn> --tier quick|thorough`, exit 0 / 1 (VIOLATION line) / 2 (ANALYSIS-ERROR: no verdict). Known open '
                 'findings are in known_findings.json and are reported as KNOWN-FINDING lines. The thorough tier adds the deeper analysis layer '
                 'where one exists and the checker self-validation (registered mutants must be reported, benign variants must stay silent) on '
                 'scratch copies under a temporary directory.',
    }
    with open(os.path.join(HERE, 'MANIFEST.json'), 'w') as fh:
        json.dump(man, fh, indent=1)
    print('MANIFEST.json: %d checks, %d not_applicable' % (len(checks), len(na)))


if __name__ == '__main__':
    main()
