#!/bin/bash
# usage: try_global.sh <transform> [Cnn ...] -- whole-package benign transform on a scratch copy (/tmp/gt), run the checks
tr=$1; shift
rm -rf /tmp/gt; mkdir /tmp/gt; cp -r /repo/miros /tmp/gt/miros; find /tmp/gt -name __pycache__ -prune -exec rm -rf {} +
/venv/bin/python -c "
import sys; sys.path.insert(0,'/verif')
from selftest.transforms import GLOBAL
GLOBAL['$tr']('/tmp/gt/miros')" || exit 3
props="$@"; [ -z "$props" ] && props=$(seq -f "C%02g" 1 32)
for p in $props; do out=$(MIROS_VERIF_OUT=/tmp/gt/out MIROS_VERIF_NO_SELFTEST=1 /verif/check $p --repo /tmp/gt 2>&1); rc=$?; [ $rc -ne 0 ] && { echo "$tr $p rc=$rc"; echo "$out" | grep -E "FINDING|ANALYSIS" -A2 | grep -v KNOWN | head -8; }; done
exit 0
