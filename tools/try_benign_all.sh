#!/bin/bash
# usage: try_benign_all.sh <diff>...   -- applies each diff to a scratch copy of /repo/miros and runs `check all` once; prints the properties that are not silent
for d in "$@"; do
  d=$(readlink -f "$d")
  tmp=$(mktemp -d /tmp/benign_try_XXXX)
  cp -r /repo/miros "$tmp/miros"; find "$tmp" -name __pycache__ -prune -exec rm -rf {} +
  if ! patch -p1 -s -f -d "$tmp" -i "$d" >/dev/null 2>&1; then echo "$(basename $d): PATCH DOES NOT APPLY"; rm -rf "$tmp"; continue; fi
  out=$(MIROS_VERIF_OUT=$tmp/out MIROS_VERIF_NO_SELFTEST=1 /verif/check all --tier quick --repo $tmp 2>&1)
  res=$(echo "$out" | grep -E "^VIOLATION|^ANALYSIS-ERROR" | sed -E 's/replay=.*//' | cut -c1-200)
  if [ -n "$res" ]; then echo "== $(basename $d)"; echo "$res"; else echo "ok $(basename $d)"; fi
  rm -rf "$tmp"
done
