#!/bin/bash
# usage: benign_dbg.sh <diff> <Cnn> -- apply to scratch copy, print inlining log and the check's findings; leaves the copy in /tmp/bdbg
rm -rf /tmp/bdbg; mkdir -p /tmp/bdbg; cp -r /repo/miros /tmp/bdbg/miros; find /tmp/bdbg -name __pycache__ -prune -exec rm -rf {} +
patch -p1 -s -f -d /tmp/bdbg -i $(readlink -f $1) || exit 3
MIROS_VERIF_REPO=/tmp/bdbg /venv/bin/python - <<PY
import sys; sys.path.insert(0,'/verif')
from sa.model import Model
m = Model()
for l in m.inlined: print('INLINE', l)
PY
shift
for p in "$@"; do MIROS_VERIF_OUT=/tmp/bdbg/out MIROS_VERIF_NO_SELFTEST=1 /verif/check $p --tier quick --repo /tmp/bdbg 2>&1 | grep -E "FINDING|ANALYSIS-ERROR|^    " | grep -v KNOWN | cut -c1-900; done
