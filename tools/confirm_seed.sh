#!/bin/bash
# usage: tools/confirm_seed.sh <seed-id> <prop> <srcdir with patch.diff demo.py notes.md>
# confirms in a fresh scratch worktree of /repo HEAD: patch applies, demo passes without / fails with, suite passes with the change
set -u
ID="$1"; PROP="$2"; SRC="$3"
# demos written by the seeding agents sometimes assert that miros is imported from the agent's own worktree: neutralise that line
DEMO=$(mktemp /tmp/confirm_demo_XXXX.py)
sed -E 's#^assert miros.__file__.startswith\(.*$#pass  \# (worktree path assertion of the original demo removed)#' "$SRC/demo.py" > "$DEMO"
WT=$(mktemp -d /tmp/confirm_XXXX)
git -C /repo worktree add -q --detach "$WT" HEAD || exit 3
cd "$WT"
echo "== demo on unmodified tree"
( cd "$WT" && PYTHONPATH="$WT" timeout 120 /venv/bin/python "$DEMO" >/tmp/confirm_demo0_$ID.log 2>&1 ); RC0=$?
echo "rc=$RC0"
if ! git apply "$SRC/patch.diff" 2>/dev/null; then git apply --3way "$SRC/patch.diff" || { echo "patch does not apply"; git -C /repo worktree remove --force "$WT"; exit 4; }; fi
echo "== demo on modified tree"
( cd "$WT" && PYTHONPATH="$WT" timeout 120 /venv/bin/python "$DEMO" >/tmp/confirm_demo1_$ID.log 2>&1 ); RC1=$?
echo "rc=$RC1"
echo "== suite on modified tree"
( cd "$WT" && PYTHONPATH="$WT" /venv/bin/python -m pytest -q -p no:cacheprovider --timeout=900 2>&1 | grep -E '^FAILED|passed|failed' ) > /tmp/confirm_suite_$ID.log
SUITE=$(tail -1 /tmp/confirm_suite_$ID.log)
echo "$SUITE"
FAILED=$(grep -E "^FAILED" /tmp/confirm_suite_$ID.log | grep -v crypto_test | grep -v test_group_4 | grep -v test_group_14 | wc -l)
if [ $FAILED -ne 0 ]; then
  # the comprehensive_hsm_test groups follow time.sleep(0.01) and fail under load: a failure counts only if it persists when the test is re-run alone
  IDS=$(grep -E "^FAILED" /tmp/confirm_suite_$ID.log | grep -v crypto_test | awk '{print $2}')
  for try in 1 2 3; do
    if ( cd "$WT" && PYTHONPATH="$WT" /venv/bin/python -m pytest -q -p no:cacheprovider --timeout=900 $IDS >/tmp/confirm_rerun_$ID.log 2>&1 ); then
      echo "(re-run alone, attempt $try: $IDS passed - load-dependent failure of the full run, not counted)"; FAILED=0; SUITE="$SUITE [+ load-dependent: $(echo $IDS | tr '\n' ' ') passed when re-run alone]"; break
    fi
  done
fi
git -C /repo worktree remove --force "$WT"
if [ $RC0 -eq 0 ] && [ $RC1 -ne 0 ] && [ $FAILED -eq 0 ]; then
  mkdir -p /verif/seeded/$ID
  cp "$SRC/patch.diff" /verif/seeded/$ID/patch.diff
  cp "$DEMO" /verif/seeded/$ID/demo.py
  [ -f "$SRC/notes.md" ] && cp "$SRC/notes.md" /verif/seeded/$ID/notes.md
  echo "CONFIRMED $ID (demo rc $RC0 -> $RC1; suite: $SUITE)"
  echo "$RC0 $RC1 $SUITE" > /verif/seeded/$ID/.confirm
else
  echo "NOT CONFIRMED $ID (demo rc $RC0 -> $RC1; other failures $FAILED; suite: $SUITE)"
fi
rm -f "$DEMO"
